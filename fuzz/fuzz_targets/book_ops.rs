#![no_main]
//! bytes -> (tick, LEVELS, trading flag, tie/discipline mode, Vec<Op>) -> real book with the
//! oracles of the selected property (VERIF_FUZZ_PROP, default: all book-level oracles) after every op.
use libfuzzer_sys::fuzz_target;

fuzz_target!(|data: &[u8]| {
    bourse_verif::decode::fuzz_book(data);
});
