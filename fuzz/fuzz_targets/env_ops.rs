#![no_main]
//! bytes -> environment kind, seed, steps and batches -> C08 / C10 / C11 / C14 oracles.
use libfuzzer_sys::fuzz_target;

fuzz_target!(|data: &[u8]| {
    bourse_verif::decode::fuzz_env(data);
});
