//! Reference matching engine.
//!
//! Deliberately naive: an order table and, per side, a `Vec` of resting order ids in
//! *insertion order*.  No ordered maps, no key tricks.  Written from the property statements
//! (C01, C04, C06, C13) and the crate documentation, not from the implementation.
//!
//! Time priority is insertion order.  With a monotone clock and distinct timestamps per
//! (side, price) this is (price, time) priority; with equal timestamps it is what C05 demands.

use serde::{Deserialize, Serialize};

#[derive(Clone, Copy, Debug, PartialEq, Eq, Hash, Serialize, Deserialize)]
pub enum St {
    New,
    Active,
    Filled,
    Cancelled,
    Rejected,
    /// a status the documentation does not know (only produced by a changed bourse; never equal to
    /// anything the oracles expect)
    Other,
}

impl St {
    pub fn terminal(self) -> bool {
        matches!(self, St::Filled | St::Cancelled | St::Rejected | St::Other)
    }
    pub fn code(self) -> u8 {
        match self {
            St::New => 0,
            St::Active => 1,
            St::Filled => 2,
            St::Cancelled => 3,
            St::Rejected => 4,
            St::Other => 5,
        }
    }
}

/// One order record, as observable through the public API.
#[derive(Clone, Debug, PartialEq, Eq, Hash, Serialize, Deserialize)]
pub struct OrderRec {
    pub bid: bool,
    pub status: St,
    pub arr_time: u64,
    pub end_time: u64,
    pub vol: u32,
    pub start_vol: u32,
    pub price: u32,
    pub trader: u32,
    pub id: usize,
}

/// One trade record.
#[derive(Clone, Debug, PartialEq, Eq, Hash, Serialize, Deserialize)]
pub struct TradeRec {
    pub t: u64,
    pub bid: bool,
    pub price: u32,
    pub vol: u32,
    pub active: usize,
    pub passive: usize,
}

#[derive(Clone, Debug)]
pub struct MOrder {
    pub rec: OrderRec,
    pub market: bool,
}

#[derive(Clone, Debug)]
pub struct ModelBook {
    pub t: u64,
    pub tick: u32,
    pub trading: bool,
    pub trade_vol: u64,
    pub orders: Vec<MOrder>,
    pub trades: Vec<TradeRec>,
    /// resting bid ids, in the order in which they were queued
    pub bids: Vec<usize>,
    /// resting ask ids, in the order in which they were queued
    pub asks: Vec<usize>,
}

impl ModelBook {
    pub fn new(t: u64, tick: u32, trading: bool) -> Self {
        ModelBook {
            t,
            tick,
            trading,
            trade_vol: 0,
            orders: vec![],
            trades: vec![],
            bids: vec![],
            asks: vec![],
        }
    }

    pub fn set_time(&mut self, t: u64) {
        self.t = t;
    }

    /// `Err(())` = rejected creation (off-grid limit price): nothing changes.
    pub fn create(&mut self, bid: bool, vol: u32, trader: u32, price: Option<u32>) -> Result<usize, ()> {
        if let Some(p) = price {
            if p % self.tick != 0 {
                return Err(());
            }
        }
        let id = self.orders.len();
        let (market, price) = match price {
            Some(p) => (false, p),
            None => (true, if bid { u32::MAX } else { 0 }),
        };
        self.orders.push(MOrder {
            rec: OrderRec {
                bid,
                status: St::New,
                arr_time: self.t, // unspecified before placement; masked in comparisons
                end_time: u64::MAX, // unspecified before termination; masked in comparisons
                vol,
                start_vol: vol,
                price,
                trader,
                id,
            },
            market,
        });
        Ok(id)
    }

    /// index into the resting list of the opposite side's best order
    fn best_of(&self, bids: bool) -> Option<usize> {
        let list = if bids { &self.bids } else { &self.asks };
        let mut best: Option<usize> = None;
        for (k, &id) in list.iter().enumerate() {
            let p = self.orders[id].rec.price;
            match best {
                None => best = Some(k),
                Some(b) => {
                    let bp = self.orders[list[b]].rec.price;
                    let better = if bids { p > bp } else { p < bp };
                    if better {
                        best = Some(k);
                    }
                }
            }
        }
        best
    }

    /// Match order `id` (not resting) against the opposite side.
    fn run_match(&mut self, id: usize) {
        loop {
            let (bid, vol, price, market) = {
                let o = &self.orders[id];
                (o.rec.bid, o.rec.vol, o.rec.price, o.market)
            };
            if vol == 0 {
                break;
            }
            // a buy matches asks, a sell matches bids
            let k = match self.best_of(!bid) {
                Some(k) => k,
                None => break,
            };
            let pid = if bid { self.asks[k] } else { self.bids[k] };
            let pprice = self.orders[pid].rec.price;
            let admits = market || if bid { pprice <= price } else { pprice >= price };
            if !admits {
                break;
            }
            let pvol = self.orders[pid].rec.vol;
            let fill = vol.min(pvol);
            self.orders[id].rec.vol -= fill;
            self.orders[pid].rec.vol -= fill;
            self.trade_vol += fill as u64;
            self.trades.push(TradeRec {
                t: self.t,
                bid: self.orders[pid].rec.bid,
                price: pprice,
                vol: fill,
                active: id,
                passive: pid,
            });
            if self.orders[pid].rec.vol == 0 {
                self.orders[pid].rec.status = St::Filled;
                self.orders[pid].rec.end_time = self.t;
                if bid {
                    self.asks.remove(k);
                } else {
                    self.bids.remove(k);
                }
            }
            if self.orders[id].rec.vol == 0 {
                self.orders[id].rec.status = St::Filled;
                self.orders[id].rec.end_time = self.t;
            }
        }
    }

    pub fn place(&mut self, id: usize) {
        if self.orders[id].rec.status != St::New {
            return;
        }
        self.orders[id].rec.status = St::Active;
        self.orders[id].rec.arr_time = self.t;
        let market = self.orders[id].market;
        let bid = self.orders[id].rec.bid;
        if market {
            if self.trading {
                self.run_match(id);
                if self.orders[id].rec.status != St::Filled {
                    self.orders[id].rec.status = St::Cancelled;
                    self.orders[id].rec.end_time = self.t;
                }
            } else {
                self.orders[id].rec.status = St::Rejected;
                self.orders[id].rec.end_time = self.t;
            }
        } else {
            if self.trading {
                self.run_match(id);
            }
            if self.orders[id].rec.status != St::Filled {
                if bid {
                    self.bids.push(id)
                } else {
                    self.asks.push(id)
                }
            }
        }
    }

    fn unqueue(&mut self, id: usize) {
        let bid = self.orders[id].rec.bid;
        let list = if bid { &mut self.bids } else { &mut self.asks };
        if let Some(k) = list.iter().position(|&x| x == id) {
            list.remove(k);
        }
    }

    pub fn cancel(&mut self, id: usize) {
        if self.orders[id].rec.status != St::Active {
            return;
        }
        self.unqueue(id);
        self.orders[id].rec.status = St::Cancelled;
        self.orders[id].rec.end_time = self.t;
    }

    pub fn modify(&mut self, id: usize, price: Option<u32>, vol: Option<u32>) {
        if self.orders[id].rec.status != St::Active {
            return;
        }
        match (price, vol) {
            (None, None) => {}
            (None, Some(v)) if v < self.orders[id].rec.vol => {
                // pure reduction: in place
                self.orders[id].rec.vol = v;
            }
            (p, v) => {
                let np = p.unwrap_or(self.orders[id].rec.price);
                let nv = v.unwrap_or(self.orders[id].rec.vol);
                self.unqueue(id);
                self.orders[id].rec.price = np;
                self.orders[id].rec.vol = nv;
                if self.trading {
                    self.run_match(id);
                }
                if self.orders[id].rec.status != St::Filled {
                    if self.orders[id].rec.bid {
                        self.bids.push(id)
                    } else {
                        self.asks.push(id)
                    }
                }
            }
        }
    }

    pub fn reset_trade_vol(&mut self) {
        self.trade_vol = 0;
    }

    pub fn resting_vol(&self, bids: bool) -> u64 {
        let list = if bids { &self.bids } else { &self.asks };
        list.iter().map(|&i| self.orders[i].rec.vol as u64).sum()
    }

    pub fn order_recs(&self) -> Vec<OrderRec> {
        self.orders.iter().map(|o| o.rec.clone()).collect()
    }

    /// Resting ids of one side in execution order (best price first, then queue order).
    pub fn queue_order(&self, bids: bool) -> Vec<usize> {
        let list = if bids { &self.bids } else { &self.asks };
        let mut v: Vec<(usize, usize)> = list.iter().cloned().enumerate().collect();
        v.sort_by(|a, b| {
            let pa = self.orders[a.1].rec.price;
            let pb = self.orders[b.1].rec.price;
            let c = if bids { pb.cmp(&pa) } else { pa.cmp(&pb) };
            c.then(a.0.cmp(&b.0))
        });
        v.into_iter().map(|x| x.1).collect()
    }
}
