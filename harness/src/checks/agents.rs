//! C16 (built-in agents emit only valid instructions and never abort) and C17 (momentum agents
//! trade symmetrically in rising and falling markets).

use super::Case;
use crate::engine::{guarded, Outcome, Part, PartKind, Tier};
use crate::envs::DynEnv;
use crate::model::{OrderRec, St};
use crate::ops::Failure;
use bourse_de::agents::{Agent, MarketAgent, MomentumAgent, MomentumMarketAgent, MomentumParams, NoiseAgent, NoiseAgentParams, NoiseMarketAgent, RandomAgents, RandomMarketAgents};
use bourse_de::{Env, MarketEnv};
use proptest::prelude::*;
use rand::{RngCore, SeedableRng};
use rand_xoshiro::Xoroshiro128StarStar;
use serde::{Deserialize, Serialize};

#[derive(Clone, Debug, PartialEq, Eq, Hash, Serialize, Deserialize)]
pub enum AgentSpec {
    Random { n: u16, tick_lo: u32, tick_span: u32, vol_lo: u32, vol_span: u32, activity: u16 },
    Noise { n: u16, p_limit: u16, p_market: u16, p_cancel: u16, trade_vol: u32, mu_milli: i32, sigma_milli: u32 },
    Momentum { n: u16, p_cancel: u16, trade_vol: u32, decay_milli: u32, demand_milli: u32, scale_milli: u32, ratio_milli: u32, mu_milli: i32, sigma_milli: u32 },
}

#[derive(Clone, Debug, PartialEq, Eq, Hash, Serialize, Deserialize)]
pub enum RngSpec {
    Seed(u64),
    /// replay `words` first, then continue with Xoroshiro seeded by `seed`
    Scripted { words: Vec<u64>, seed: u64 },
}

#[derive(Clone, Debug, PartialEq, Eq, Hash, Serialize, Deserialize)]
pub struct AgentCase {
    pub spec: AgentSpec,
    /// multi-asset variant on MarketEnv<2, 10>, agent trading asset `asset`
    pub market: bool,
    pub asset: u8,
    pub tick: u32,
    /// 0 empty, 1 bids only, 2 asks only, 3 two-sided
    pub start_book: u8,
    pub mid_k: u32,
    pub steps: u16,
    pub rng: RngSpec,
    pub id_start: u32,
    /// harness quotes placed before some updates (signed tick offsets from the starting mid; 0 = none)
    pub quote_moves: Vec<i8>,
}

/// probability code -> value: 0 -> 0, 1 -> 1, 2 -> 1.5, 3 -> 2, else code / 65536 in (0,1)
pub fn prob(code: u16) -> f32 {
    match code {
        0 => 0.0,
        1 => 1.0,
        2 => 1.5,
        3 => 2.0,
        // probabilities far below the resolution of one generator draw, and one just below 1
        4 => 1e-9,
        5 => 2e-8,
        6 => 1e-6,
        7 => 0.999_999,
        c => c as f32 / 65536.0,
    }
}

/// Chernoff bound for the upper tail of a sum of independent Bernoulli trials with mean `mu`:
/// P(X >= x) <= exp(-mu) (e mu / x)^x for x > mu (1 otherwise).
fn upper_tail_bound(mu: f64, x: u64) -> f64 {
    if x == 0 || (x as f64) <= mu {
        return 1.0;
    }
    let x = x as f64;
    (-mu + x * (1.0 + (mu / x).ln())).exp()
}

/// "Follows the documented probabilities" between the deterministic corners: over the `n` independent opportunities
/// of a case (seeded Xoroshiro draws) an action of probability `p` happened `x` times. A count that a correct agent
/// reaches with probability below 1e-12 is a violation (20 000 such tests per run: false-alarm probability < 1e-7).
/// The agent compares one f32 draw (24 bits) with p, so p is only resolved to 2^-24: both tails allow for that.
/// `exact` = the count is exact (too FEW actions can be tested as well).
fn activity_tail(p: f64, n: u64, x: u64, exact: bool) -> Option<String> {
    const ALPHA: f64 = 1e-12;
    let g = 2f64.powi(-24);
    if !(p > 0.0 && p < 1.0) || n == 0 {
        return None;
    }
    let up = upper_tail_bound(n as f64 * (p + g).min(1.0), x);
    if up < ALPHA {
        return Some(format!("probability {:e}, {} opportunities, happened {} times (a correct agent does so with probability < {:e})", p, n, x, up));
    }
    if exact {
        let misses = n - x.min(n);
        let dn = upper_tail_bound(n as f64 * ((1.0 - p) + g).min(1.0), misses);
        if dn < ALPHA {
            return Some(format!("probability {:e}, {} opportunities, did NOT happen {} times (a correct agent does so with probability < {:e})", p, n, misses, dn));
        }
    }
    None
}

pub struct ScriptedRng {
    words: Vec<u64>,
    pos: usize,
    fallback: Xoroshiro128StarStar,
}

impl RngCore for ScriptedRng {
    fn next_u32(&mut self) -> u32 {
        self.next_u64() as u32
    }
    fn next_u64(&mut self) -> u64 {
        if self.pos < self.words.len() {
            self.pos += 1;
            self.words[self.pos - 1]
        } else {
            self.fallback.next_u64()
        }
    }
    fn fill_bytes(&mut self, dest: &mut [u8]) {
        let _ = rand_core_fill(self, dest);
    }
    fn try_fill_bytes(&mut self, dest: &mut [u8]) -> Result<(), rand::Error> {
        self.fill_bytes(dest);
        Ok(())
    }
}

fn rand_core_fill<R: RngCore>(r: &mut R, dest: &mut [u8]) {
    for chunk in dest.chunks_mut(8) {
        let w = r.next_u64().to_le_bytes();
        chunk.copy_from_slice(&w[..chunk.len()]);
    }
}

pub enum AnyRng {
    X(Xoroshiro128StarStar),
    S(ScriptedRng),
}

impl AnyRng {
    pub fn of(spec: &RngSpec) -> Self {
        match spec {
            RngSpec::Seed(s) => AnyRng::X(Xoroshiro128StarStar::seed_from_u64(*s)),
            RngSpec::Scripted { words, seed } => AnyRng::S(ScriptedRng { words: words.clone(), pos: 0, fallback: Xoroshiro128StarStar::seed_from_u64(*seed) }),
        }
    }
}

impl RngCore for AnyRng {
    fn next_u32(&mut self) -> u32 {
        match self {
            AnyRng::X(r) => r.next_u32(),
            AnyRng::S(r) => r.next_u32(),
        }
    }
    fn next_u64(&mut self) -> u64 {
        match self {
            AnyRng::X(r) => r.next_u64(),
            AnyRng::S(r) => r.next_u64(),
        }
    }
    fn fill_bytes(&mut self, dest: &mut [u8]) {
        match self {
            AnyRng::X(r) => r.fill_bytes(dest),
            AnyRng::S(r) => r.fill_bytes(dest),
        }
    }
    fn try_fill_bytes(&mut self, dest: &mut [u8]) -> Result<(), rand::Error> {
        self.fill_bytes(dest);
        Ok(())
    }
}

pub enum EnvObj {
    S(Env),
    M(MarketEnv<2, 10>),
}

impl EnvObj {
    pub fn dynenv(&self) -> &dyn DynEnv {
        match self {
            EnvObj::S(e) => e,
            EnvObj::M(e) => e,
        }
    }
    pub fn dynenv_mut(&mut self) -> &mut dyn DynEnv {
        match self {
            EnvObj::S(e) => e,
            EnvObj::M(e) => e,
        }
    }
}

pub enum AgentObj {
    R(RandomAgents),
    N(NoiseAgent),
    M(MomentumAgent),
    RM(RandomMarketAgents),
    NM(NoiseMarketAgent),
    MM(MomentumMarketAgent),
}

impl AgentObj {
    pub fn update<R: RngCore>(&mut self, env: &mut EnvObj, rng: &mut R) {
        match (self, env) {
            (AgentObj::R(a), EnvObj::S(e)) => a.update(e, rng),
            (AgentObj::N(a), EnvObj::S(e)) => a.update(e, rng),
            (AgentObj::M(a), EnvObj::S(e)) => a.update(e, rng),
            (AgentObj::RM(a), EnvObj::M(e)) => a.update(e, rng),
            (AgentObj::NM(a), EnvObj::M(e)) => a.update(e, rng),
            (AgentObj::MM(a), EnvObj::M(e)) => a.update(e, rng),
            _ => panic!("harness: agent / environment kind mismatch"),
        }
    }
}

fn noise_params(tick: u32, p_limit: u16, p_market: u16, p_cancel: u16, trade_vol: u32, mu_milli: i32, sigma_milli: u32) -> NoiseAgentParams {
    NoiseAgentParams { tick_size: tick, p_limit: prob(p_limit), p_market: prob(p_market), p_cancel: prob(p_cancel), trade_vol, price_dist_mu: mu_milli as f64 / 1000.0, price_dist_sigma: sigma_milli as f64 / 1000.0 }
}

/// demand / scale in thousandths; bit 31 set = negative (a finite parameter like any other: the documented
/// probability takes the absolute value, the side follows the sign of M alone)
pub fn signed_milli(x: u32) -> f64 {
    let v = (x & 0x7fff_ffff) as f64 / 1000.0;
    if x >> 31 == 1 {
        -v
    } else {
        v
    }
}

#[allow(clippy::too_many_arguments)]
pub fn momentum_params(tick: u32, p_cancel: u16, trade_vol: u32, decay_milli: u32, demand_milli: u32, scale_milli: u32, ratio_milli: u32, mu_milli: i32, sigma_milli: u32) -> MomentumParams {
    MomentumParams {
        tick_size: tick,
        p_cancel: prob(p_cancel),
        trade_vol,
        decay: decay_milli as f64 / 1000.0,
        demand: signed_milli(demand_milli),
        scale: signed_milli(scale_milli),
        order_ratio: ratio_milli as f64 / 1000.0,
        price_dist_mu: mu_milli as f64 / 1000.0,
        price_dist_sigma: sigma_milli as f64 / 1000.0,
    }
}

pub fn make_agent(c: &AgentCase) -> (AgentObj, Vec<u32>) {
    let a = c.asset as usize % 2;
    match &c.spec {
        AgentSpec::Random { n, tick_lo, tick_span, vol_lo, vol_span, activity } => {
            let tr = (*tick_lo, tick_lo + tick_span.max(&1));
            let vr = (*vol_lo, vol_lo + vol_span.max(&1));
            let ids: Vec<u32> = (0..*n as u32).collect();
            if c.market {
                (AgentObj::RM(RandomMarketAgents::new(a, *n as usize, tr, vr, c.tick, prob(*activity))), ids)
            } else {
                (AgentObj::R(RandomAgents::new(*n as usize, tr, vr, c.tick, prob(*activity))), ids)
            }
        }
        AgentSpec::Noise { n, p_limit, p_market, p_cancel, trade_vol, mu_milli, sigma_milli } => {
            let p = noise_params(c.tick, *p_limit, *p_market, *p_cancel, *trade_vol, *mu_milli, *sigma_milli);
            let ids: Vec<u32> = (c.id_start..c.id_start + *n as u32).collect();
            if c.market {
                (AgentObj::NM(NoiseMarketAgent::new(a, c.id_start, *n, p)), ids)
            } else {
                (AgentObj::N(NoiseAgent::new(c.id_start, *n, p)), ids)
            }
        }
        AgentSpec::Momentum { n, p_cancel, trade_vol, decay_milli, demand_milli, scale_milli, ratio_milli, mu_milli, sigma_milli } => {
            let p = momentum_params(c.tick, *p_cancel, *trade_vol, *decay_milli, *demand_milli, *scale_milli, *ratio_milli, *mu_milli, *sigma_milli);
            let ids: Vec<u32> = (c.id_start..c.id_start + *n as u32).collect();
            if c.market {
                (AgentObj::MM(MomentumMarketAgent::new(c.id_start, *n, a, p)), ids)
            } else {
                (AgentObj::M(MomentumAgent::new(c.id_start, *n, p)), ids)
            }
        }
    }
}

const HARNESS_TRADER: u32 = 4_000_000_000;

#[derive(Default, Clone, Debug)]
pub struct AgentFeatures {
    pub audited_slots: u64,
    pub stat_tests: u64,
    pub instructions: u64,
    pub limit_orders: u64,
    pub market_orders: u64,
    pub cancels: u64,
    pub two_sided: bool,
    pub steps: u64,
    pub kinds: u32,
    pub clamped_low: u64,
    pub clamped_high: u64,
    pub momentum_saturated: u64,
    pub momentum_imposed_updates: u64,
}

fn is_market(o: &OrderRec) -> bool {
    (o.bid && o.price == u32::MAX) || (!o.bid && o.price == 0)
}

pub fn run_agent_case(c: &AgentCase) -> (AgentFeatures, Result<(), Failure>) {
    let mut f = AgentFeatures::default();
    let r = run_agent_inner(c, &mut f);
    (f, r)
}

fn run_agent_inner(c: &AgentCase, feat: &mut AgentFeatures) -> Result<(), Failure> {
    let a = if c.market { c.asset as usize % 2 } else { 0 };
    let tick = c.tick;
    let mut env = if c.market { EnvObj::M(MarketEnv::<2, 10>::new(0, [tick, tick], 1_000_000, true)) } else { EnvObj::S(Env::new(0, tick, 1_000_000, true)) };
    // an asks-only starting book may sit at the very bottom of the price range (best ask on the lowest ticks: the
    // observed mid-price is then below one tick)
    let mid = if c.start_book == 2 && c.mid_k < 20 { c.mid_k * tick } else { c.mid_k.max(20) * tick };
    let mut hrng = Xoroshiro128StarStar::seed_from_u64(7);
    // starting book placed by the harness
    {
        let e = env.dynenv_mut();
        for k in 1..=4u32 {
            if c.start_book & 1 != 0 {
                let _ = e.place_order(a, true, 50 + k, HARNESS_TRADER, Some(mid - k * tick));
            }
            if c.start_book & 2 != 0 {
                let _ = e.place_order(a, false, 60 + 2 * k, HARNESS_TRADER, Some(mid + k * tick));
            }
        }
        e.step(&mut hrng);
    }
    let (mut agent, ids) = make_agent(c);
    let mut rng = AnyRng::of(&c.rng);
    let fail = |sig: &str, step: usize, msg: String| Failure::new("C16", sig, format!("update {}: {}", step, msg));
    // ids of the agent's own orders (per asset a) and, per trader, the last order it placed
    let mut own: std::collections::BTreeSet<usize> = Default::default();
    let mut last_of: std::collections::BTreeMap<u32, usize> = Default::default();
    let n_traders = ids.len();
    let (mut mom_m, mut mom_last): (f64, Option<f64>) = (0.0, None);
    // statistics for the probabilities strictly between 0 and 1 (seeded generators only)
    let seeded = matches!(c.rng, RngSpec::Seed(_));
    let (mut opportunities, mut n_limit, mut n_market, mut n_actions) = (0u64, 0u64, 0u64, 0u64);

    for step in 0..c.steps as usize {
        // occasional harness quote (moves the touch under the agent)
        if let Some(mv) = c.quote_moves.get(step) {
            if *mv != 0 && !(c.start_book == 2 && c.mid_k < 20) {
                let k = (c.mid_k.max(20) as i64 + *mv as i64).max(1) as u32;
                let _ = env.dynenv_mut().place_order(a, *mv > 0, 40, HARNESS_TRADER, Some(k * tick));
            }
        }
        let mid_seen = env.dynenv().book(a).mid_price();
        let before: Vec<Vec<OrderRec>> = (0..env.dynenv().assets()).map(|x| env.dynenv().get_orders(x)).collect();
        let v = &env.dynenv().book(a);
        if v.bid_vol() > 0 && v.ask_vol() > 0 {
            feat.two_sided = true;
        }
        agent.update(&mut env, &mut rng);
        feat.steps += 1;
        let after: Vec<Vec<OrderRec>> = (0..env.dynenv().assets()).map(|x| env.dynenv().get_orders(x)).collect();
        // no submission changes existing records; other assets untouched
        for x in 0..after.len() {
            if after[x][..before[x].len()] != before[x][..] {
                return Err(fail("C16 agent update changed existing order records", step, format!("asset {}", x)));
            }
            if x != a && after[x].len() != before[x].len() {
                return Err(fail("C16 agent submitted to an asset it does not trade", step, format!("asset {}", x)));
            }
        }
        let new: Vec<OrderRec> = after[a][before[a].len()..].to_vec();
        let mut limit_by: std::collections::BTreeMap<u32, u32> = Default::default();
        let mut market_by: std::collections::BTreeMap<u32, u32> = Default::default();
        for o in new.iter() {
            feat.instructions += 1;
            if o.status != St::New {
                return Err(fail("C16 submitted order is not New before the step", step, format!("{:?}", o)));
            }
            if !ids.contains(&o.trader) {
                return Err(fail("C16 order carries a trader id that is not the agent's", step, format!("{:?}, agent ids {:?}..", o, ids.first())));
            }
            let mkt = is_market(o);
            if mkt {
                feat.market_orders += 1;
                *market_by.entry(o.trader).or_default() += 1;
            } else {
                feat.limit_orders += 1;
                *limit_by.entry(o.trader).or_default() += 1;
                if o.price % tick != 0 {
                    return Err(fail("C16 limit price off the tick grid", step, format!("{:?} tick {}", o, tick)));
                }
            }
            match &c.spec {
                AgentSpec::Random { tick_lo, tick_span, vol_lo, vol_span, .. } => {
                    let (lo, hi) = (*tick_lo, tick_lo + tick_span.max(&1));
                    let (vl, vh) = (*vol_lo, vol_lo + vol_span.max(&1));
                    if mkt || o.price / tick < lo || o.price / tick >= hi {
                        return Err(fail("C16 random agent price outside its tick range", step, format!("{:?}, ticks [{}, {})", o, lo, hi)));
                    }
                    if o.vol < vl || o.vol >= vh {
                        return Err(fail("C16 random agent volume outside its range", step, format!("{:?}, volumes [{}, {})", o, vl, vh)));
                    }
                }
                AgentSpec::Noise { trade_vol, .. } | AgentSpec::Momentum { trade_vol, .. } => {
                    if o.vol != *trade_vol || o.start_vol != *trade_vol {
                        return Err(fail("C16 order volume is not the configured volume", step, format!("{:?}, configured {}", o, trade_vol)));
                    }
                    if !mkt {
                        let p = o.price as f64;
                        if (o.bid && p > mid_seen) || (!o.bid && p < mid_seen) {
                            return Err(fail("C16 quote on the wrong side of the observed mid-price", step, format!("{:?}, observed mid {}", o, mid_seen)));
                        }
                        if o.bid && o.price == 0 {
                            feat.clamped_low += 1;
                        }
                        if !o.bid && o.price >= u32::MAX - tick {
                            feat.clamped_high += 1;
                        }
                    }
                }
            }
            own.insert(o.id);
        }
        // activity rules in their deterministic corners
        match &c.spec {
            AgentSpec::Noise { p_limit, p_market, .. } => {
                for (code, by, what) in [(*p_limit, &limit_by, "limit"), (*p_market, &market_by, "market")] {
                    let p = prob(code);
                    if p <= 0.0 && !by.is_empty() {
                        return Err(fail("C16 action with probability 0 happened", step, format!("{} orders {:?}", what, by)));
                    }
                    if p >= 1.0 && (by.len() != n_traders || by.values().any(|x| *x != 1)) {
                        return Err(fail("C16 action with probability >= 1 did not happen once per trader", step, format!("{} orders per trader {:?}, {} traders", what, by, n_traders)));
                    }
                }
            }
            AgentSpec::Random { activity, .. } => {
                let p = prob(*activity);
                if limit_by.values().any(|x| *x > 1) || !market_by.is_empty() {
                    return Err(fail("C16 random agent placed more than one order", step, format!("{:?} {:?}", limit_by, market_by)));
                }
                if p <= 0.0 && !new.is_empty() {
                    return Err(fail("C16 action with probability 0 happened", step, format!("{} new orders", new.len())));
                }
                for t in ids.iter() {
                    let holds_active = last_of.get(t).map_or(false, |id| before[a][*id].status == St::Active);
                    let placed = limit_by.get(t).cloned().unwrap_or(0);
                    if holds_active && placed > 0 {
                        return Err(fail("C16 random agent holds more than one live order", step, format!("trader {} placed an order while order {:?} is active", t, last_of.get(t))));
                    }
                    if p >= 1.0 && !holds_active && placed != 1 {
                        return Err(fail("C16 action with probability >= 1 did not happen once per trader", step, format!("trader {} holds no live order and placed {}", t, placed)));
                    }
                }
            }
            AgentSpec::Momentum { decay_milli, demand_milli, scale_milli, ratio_milli, .. } => {
                // the documented signal, recomputed from the mid-prices the agent saw (same recurrence as C17);
                // only its deterministic corners are asserted here: M = 0 => nothing, M > 0 => no sells,
                // M < 0 => no buys, probability >= 1 => exactly one order of that kind per trader
                let (decay, demand, scale, ratio) = (*decay_milli as f64 / 1000.0, signed_milli(*demand_milli), signed_milli(*scale_milli), *ratio_milli as f64 / 1000.0);
                let mk = match mom_last {
                    Some(p) => mom_m * (1.0 - decay) + decay * (mid_seen - p),
                    None => 0.0,
                };
                let pm = if mom_last.is_some() && n_traders > 0 { (demand * (scale * mk).tanh() / n_traders as f64).abs() } else { 0.0 };
                let pl = ratio * pm;
                let buys = new.iter().filter(|o| o.bid).count();
                let sells = new.len() - buys;
                if (mk == 0.0 && !new.is_empty()) || (mk > 0.0 && sells > 0) || (mk < 0.0 && buys > 0) {
                    return Err(fail("C16 momentum agent's orders contradict its momentum signal", step, format!("M = {}: {} buys, {} sells", mk, buys, sells)));
                }
                for (p, by, what) in [(pm, &market_by, "market"), (pl, &limit_by, "limit")] {
                    if mk != 0.0 && p >= 1.0 + 1e-9 && (by.len() != n_traders || by.values().any(|x| *x != 1)) {
                        return Err(fail("C16 action with probability >= 1 did not happen once per trader", step, format!("momentum M = {}, probability {}: {} orders per trader {:?}, {} traders", mk, p, what, by, n_traders)));
                    }
                    if p <= 0.0 && !by.is_empty() {
                        return Err(fail("C16 action with probability 0 happened", step, format!("momentum M = {}: {} orders {:?}", mk, what, by)));
                    }
                }
                if mk != 0.0 && pm >= 1.0 + 1e-9 {
                    feat.momentum_saturated += 1;
                }
                mom_m = mk;
                mom_last = Some(mid_seen);
            }
        }
        for o in new.iter() {
            last_of.insert(o.trader, o.id);
        }
        opportunities += n_traders as u64;
        n_limit += limit_by.values().map(|x| *x as u64).sum::<u64>();
        n_market += market_by.values().map(|x| *x as u64).sum::<u64>();
        n_actions += new.len() as u64;
        if matches!(c.spec, AgentSpec::Random { .. }) {
            // never more than one live (New or Active) order per trader
            for t in ids.iter() {
                let live = after[a].iter().filter(|o| own.contains(&o.id) && o.trader == *t && matches!(o.status, St::New | St::Active)).count();
                // an order whose cancellation was just queued is still Active until the step
                if live > 1 {
                    return Err(fail("C16 random agent holds more than one live order", step, format!("trader {} has {} live orders", t, live)));
                }
            }
        }
        let mut kinds = 0u32;
        if feat.limit_orders > 0 {
            kinds |= 1
        }
        if feat.market_orders > 0 {
            kinds |= 2
        }
        // ---- the step
        let step_start = env.dynenv().time();
        env.dynenv_mut().step(&mut rng);
        let post = env.dynenv().get_orders(a);
        // ---- instruction-count audit: the i-th processed instruction is stamped start+i, so the positions
        // revealed by this step's new orders (arrival time) and effective cancellations (end time) must cover
        // 0..=max except for cancellations that lost a race: a hole is legitimate only if one of the agent's
        // orders that was Active when the agent looked was filled during this step. Any other hole is an
        // instruction that is neither a new order nor a cancellation of an order that was active.
        {
            let mut revealed: std::collections::BTreeSet<u64> = Default::default();
            let mut lost_races = 0u64;
            for (x, y) in after[a].iter().zip(post.iter()) {
                if x.status == St::New {
                    revealed.insert(y.arr_time.wrapping_sub(step_start));
                } else if x.status == St::Active && y.status == St::Cancelled {
                    revealed.insert(y.end_time.wrapping_sub(step_start));
                } else if x.status == St::Active && y.status == St::Filled && own.contains(&x.id) {
                    lost_races += 1;
                }
            }
            if let Some(max) = revealed.iter().next_back().cloned() {
                if max < 1_000_000 {
                    let holes = (max + 1) - revealed.len() as u64;
                    if holes > lost_races {
                        return Err(fail("C16 agent submitted an instruction that is neither a new order nor a cancellation of an active order", step, format!("processed positions {:?} of this step leave {} unexplained slot(s); only {} of the agent's active orders were filled during the step", revealed, holes, lost_races)));
                    }
                    feat.audited_slots += max + 1;
                }
            }
        }
        let (p_cancel, is_random, act) = match &c.spec {
            AgentSpec::Noise { p_cancel, .. } | AgentSpec::Momentum { p_cancel, .. } => (prob(*p_cancel), false, 0.0),
            AgentSpec::Random { activity, .. } => (0.0, true, prob(*activity)),
        };
        for (x, y) in after[a].iter().zip(post.iter()) {
            let became_cancelled = x.status != St::Cancelled && y.status == St::Cancelled && !is_market(y);
            if became_cancelled {
                feat.cancels += 1;
                feat.instructions += 1;
                n_actions += 1;
                if !own.contains(&y.id) || !ids.contains(&y.trader) {
                    return Err(fail("C16 agent cancelled an order that is not its own", step, format!("{:?}", y)));
                }
                if x.status != St::Active {
                    return Err(fail("C16 agent cancelled an order that was not active when it looked", step, format!("{:?} -> {:?}", x, y)));
                }
                if !is_random && p_cancel <= 0.0 {
                    return Err(fail("C16 cancel at p_cancel=0", step, format!("{:?} was cancelled although the cancel probability is 0", y)));
                }
                if is_random && act <= 0.0 {
                    return Err(fail("C16 action with probability 0 happened", step, format!("{:?} cancelled with activity rate 0", y)));
                }
            }
            if own.contains(&x.id) && !is_market(x) && x.status == St::Active && before[a].get(x.id).map_or(false, |b| b.status == St::Active) {
                // live when the agent looked
                let must_cancel = if is_random { act >= 1.0 && last_of.get(&x.trader) == Some(&x.id) && !new.iter().any(|o| o.trader == x.trader) } else { p_cancel >= 1.0 };
                if must_cancel && y.status == St::Active {
                    return Err(fail("C16 cancellation with probability >= 1 did not happen", step, format!("{:?} is still active after the step", y)));
                }
            }
        }
        if feat.cancels > 0 {
            kinds |= 4;
        }
        feat.kinds = kinds;
    }
    if seeded {
        let tests: Vec<(&str, f64, u64, bool)> = match &c.spec {
            AgentSpec::Noise { p_limit, p_market, .. } => vec![("limit order", prob(*p_limit) as f64, n_limit, true), ("market order", prob(*p_market) as f64, n_market, true)],
            // a random trader acts (places, or cancels its live order) with the activity rate; a cancellation that
            // lost a race against a fill is not seen, so the count is a lower bound
            AgentSpec::Random { activity, .. } => vec![("action", prob(*activity) as f64, n_actions, false)],
            AgentSpec::Momentum { .. } => vec![],
        };
        for (what, p, x, exact) in tests {
            if p > 0.0 && p < 1.0 {
                feat.stat_tests += 1;
            }
            if let Some(m) = activity_tail(p, opportunities, x, exact) {
                return Err(fail("C16 activity contradicts its documented probability", c.steps as usize, format!("{} of {} traders over {} updates: {}", what, n_traders, c.steps, m)));
            }
        }
    }
    Ok(())
}

/// For a momentum case: the same agent parameters on a mid-price path IMPOSED by harness quotes (C17's
/// machinery), with the decay snapped to a dyadic value half of the time, so that the signal returns to
/// exactly zero, stays saturated through still steps, etc. Only the activity clauses of C16 are taken from
/// it (nothing at probability 0, one order per trader at probability >= 1, side given by the sign).
fn momentum_activity_on_imposed_path(c: &AgentCase) -> Result<u64, Failure> {
    let AgentSpec::Momentum { n, p_cancel, trade_vol, decay_milli, demand_milli, scale_milli, ratio_milli, mu_milli, sigma_milli } = &c.spec else { return Ok(0) };
    let mut p = 0i16;
    let mut path: Vec<i16> = vec![0];
    for mv in c.quote_moves.iter() {
        p = (p + *mv as i16).clamp(-150, 150);
        path.push(p);
        if *mv == 0 {
            path.push(p); // a still step
        }
    }
    let decay = match decay_milli % 8 { 0 => 500, 1 => 250, 2 => 750, 3 => 125, _ => *decay_milli };
    let mc = MomCase { market: c.market, asset: c.asset, tick: c.tick, level_k: c.mid_k.clamp(500, 90_000), path, widen: vec![], n: *n, p_cancel: *p_cancel, trade_vol: *trade_vol, decay_milli: decay, demand_milli: *demand_milli, scale_milli: *scale_milli, ratio_milli: *ratio_milli, mu_milli: *mu_milli, sigma_milli: *sigma_milli, seed: c.id_start as u64 ^ ((c.mid_k as u64) << 32), one_sided: 0 };
    let (classes, _, res) = run_mom(&mc);
    let updates = classes.iter().find(|x| x.0 == "updates").map_or(0, |x| x.1);
    match res {
        Err(f) if f.sig.contains("while momentum") || f.sig.contains("at saturated demand") => Err(Failure::new("C16", "C16 momentum agent's activity contradicts its documented probability", format!("on an imposed mid-price path ({:?}): {} - {}", mc, f.sig, f.msg))),
        _ => Ok(updates),
    }
}

pub fn outcome_c16(c: &AgentCase) -> Outcome {
    match guarded("C16", || {
        let (f, res) = run_agent_case(c);
        match res {
            Ok(()) => match momentum_activity_on_imposed_path(c) {
                Ok(n) => {
                    let mut f = f;
                    f.momentum_imposed_updates = n;
                    (f, Ok(()))
                }
                Err(e) => (f, Err(e)),
            },
            e => (f, e),
        }
    }) {
        Ok((f, res)) => {
            let kinds = f.kinds.count_ones();
            Outcome {
                nontrivial: res.is_ok() && f.instructions >= 20 && kinds >= 2 && f.two_sided,
                classes: vec![
                    ("agent_runs", 1),
                    ("agent_updates", f.steps),
                    ("agent_instructions", f.instructions),
                    ("agent_limit_orders", f.limit_orders),
                    ("agent_market_orders", f.market_orders),
                    ("agent_cancellations", f.cancels),
                    ("runs_on_two_sided_book", f.two_sided as u64),
                    ("buy_price_clamped_to_0", f.clamped_low),
                    ("sell_price_clamped_to_top_of_grid", f.clamped_high),
                    ("momentum_updates_at_saturated_demand", f.momentum_saturated),
                    ("instruction_slots_audited", f.audited_slots),
                    ("probability_tail_tests_between_0_and_1", f.stat_tests),
                    ("momentum_updates_on_imposed_paths", f.momentum_imposed_updates),
                ],
                result: res.err(),
            }
        }
        Err(f) => Outcome { nontrivial: false, classes: vec![("panics", 1)], result: Some(f) },
    }
}

// ------------------------------------------------------------------------------------------
// generators

fn prob_code() -> BoxedStrategy<u16> {
    prop_oneof![2 => Just(0u16), 2 => Just(1u16), 1 => Just(2u16), 1 => Just(3u16), 1 => 4u16..=7, 6 => 8u16..=65535].boxed()
}

fn rng_spec() -> BoxedStrategy<RngSpec> {
    let word = prop_oneof![3 => Just(0u64), 2 => Just(u64::MAX), 1 => Just(0xFFFF_FFFFu64), 1 => Just(1u64 << 63), 3 => any::<u64>()];
    prop_oneof![
        6 => any::<u64>().prop_map(RngSpec::Seed),
        1 => (0u64..64).prop_map(RngSpec::Seed),
        // seeds whose first f32 draw is exactly 0.0 (found by scanning the seed space)
        1 => Just(RngSpec::Seed(153381)),
        3 => (proptest::collection::vec(word, 1..24), any::<u64>()).prop_map(|(words, seed)| RngSpec::Scripted { words, seed }),
    ]
    .boxed()
}

fn spec_strategy(kind: u8) -> BoxedStrategy<AgentSpec> {
    let n = prop_oneof![2 => Just(0u16), 12 => 1u16..=8, 4 => 9u16..=50, 1 => prop_oneof![Just(63u16), Just(64), Just(65), Just(127), Just(128), Just(129), Just(255), Just(256), Just(257), 51u16..=300]];
    let mu = prop_oneof![3 => -2000i32..=6000, 1 => Just(0i32)];
    let sigma = prop_oneof![3 => 0u32..=12_000, 2 => Just(10_000u32), 1 => Just(1_000u32), 1 => Just(0u32)];
    // (a configured volume of 0 is inside the property's domain: "non-empty ranges" is its only demand on volumes)
    let vol = prop_oneof![12 => 1u32..=100, 4 => 1u32..=10_000, 1 => Just(0u32)];
    match kind {
        0 => (n, 1u32..2000, 1u32..200, prop_oneof![7 => 1u32..500, 1 => Just(0u32)], prop_oneof![3 => 1u32..500, 1 => 1u32..4], prob_code()).prop_map(|(n, tick_lo, tick_span, vol_lo, vol_span, activity)| AgentSpec::Random { n, tick_lo, tick_span, vol_lo, vol_span, activity }).boxed(),
        1 => (n, prob_code(), prob_code(), prob_code(), vol, mu, sigma).prop_map(|(n, p_limit, p_market, p_cancel, trade_vol, mu_milli, sigma_milli)| AgentSpec::Noise { n, p_limit, p_market, p_cancel, trade_vol, mu_milli, sigma_milli }).boxed(),
        _ => (n, prob_code(), vol, 1u32..=1000, (0u32..=100_000, 0u32..8), (0u32..=5_000, 0u32..8), 0u32..=3_000, mu, sigma)
            .prop_map(|(n, p_cancel, trade_vol, decay_milli, (demand_milli, ds), (scale_milli, ss), ratio_milli, mu_milli, sigma_milli)| (n, p_cancel, trade_vol, decay_milli, demand_milli | ((ds == 0) as u32) << 31, scale_milli | ((ss == 0) as u32) << 31, ratio_milli, mu_milli, sigma_milli))
            .prop_map(|(n, p_cancel, trade_vol, decay_milli, demand_milli, scale_milli, ratio_milli, mu_milli, sigma_milli)| AgentSpec::Momentum { n, p_cancel, trade_vol, decay_milli, demand_milli, scale_milli, ratio_milli, mu_milli, sigma_milli })
            .boxed(),
    }
}

pub fn agent_case_strategy(kind: u8, max_steps: u16) -> BoxedStrategy<AgentCase> {
    (spec_strategy(kind), any::<bool>(), 0u8..2, 1u32..=10, prop_oneof![1 => Just(0u8), 1 => Just(1u8), 1 => Just(2u8), 4 => Just(3u8)], prop_oneof![8 => 20u32..5000, 2 => 20u32..400_000_000, 1 => 0u32..20], 1u16..=max_steps, rng_spec(), prop_oneof![3 => 0u32..1000, 1 => any::<u32>().prop_map(|x| x >> 1)], proptest::collection::vec(prop_oneof![3 => Just(0i8), 1 => -6i8..=6], 0..40))
        .prop_map(|(spec, market, asset, tick, start_book, mid_k, steps, rng, id_start, quote_moves)| {
            let low = mid_k < 20;
            let mid_k = if low { mid_k } else { mid_k.min((u32::MAX / tick).saturating_sub(1000)).max(20) };
            // the bottom-of-the-range books are asks-only
            let start_book = if low { 2 } else { start_book };
            // large populations run fewer rounds (the audit reads every order record around every update): the
            // total number of trader-rounds stays below ~5 000 so that a case takes milliseconds, far from the
            // per-case CPU limit that stands for non-termination
            let n = match &spec {
                AgentSpec::Random { n, .. } | AgentSpec::Noise { n, .. } | AgentSpec::Momentum { n, .. } => *n as u32,
            };
            let steps = if n > 50 { steps.min((5_000 / n).max(2) as u16) } else { steps };
            AgentCase { spec, market, asset, tick, start_book, mid_k, steps, rng, id_start, quote_moves }
        })
        .boxed()
}

pub fn parts_c16(tier: Tier) -> (Vec<Part<Case>>, String) {
    let steps = tier.pick(200u16, 200u16);
    let mut v = vec![];
    for (k, name, cases) in [(0u8, "random-agents", tier.pick(2_500u64, 60_000u64)), (1, "noise-agents", tier.pick(3_000, 80_000)), (2, "momentum-agents", tier.pick(2_000, 50_000))] {
        v.push(Part { name: name.to_string(), kind: PartKind::Random { make: Box::new(move || agent_case_strategy(k, steps).prop_map(Case::Agent).boxed()), cases } });
    }
    (
        v,
        "A case is one agent object (random / noise / momentum; single-asset on Env or multi-asset on MarketEnv<2,10>) with generated parameters (counts 0..50 and, in 5 % of the cases, up to 300 incl. 63..65, 127..129, 255..257 with fewer rounds; tick 1..10 shared with the environment, probabilities from {0, (0,1), 1, >1}, log-normal mu in [-2,6], sigma in [0,12] incl. the documentation's 10, volumes 1..10^4 and, in 6 % of the cases, volume ranges starting at 0 / a configured volume of 0), a starting book (empty / one-sided / two-sided), 1..200 update+step rounds driven by the harness, occasional harness quotes moving the touch, and a generator (Xoroshiro seeds incl. boundary seeds, or a scripted RngCore replaying generated words such as 0 and MAX before continuing with Xoroshiro). After each update every newly created order is checked (status New, agent's trader id, configured volume or range, on the grid, buy <= observed mid <= sell, random agents inside their tick range, at most one live order per trader, probability 0 => nothing, >= 1 => exactly once per trader; for probabilities strictly between 0 and 1 - incl. 1e-9, 2e-8, 1e-6 and 0.999999 - the number of times the action happened over all opportunities of the case must not lie in a tail that a correct agent reaches with probability < 1e-12, exact Chernoff bound, seeded generators only); after the following step every order that became Cancelled must be the agent's own and have been Active when the agent looked, and p_cancel in {0, >=1} must be exact; a panic anywhere in the agent or environment is a violation. Non-trivial: >= 20 emitted instructions of >= 2 kinds on a two-sided book."
            .to_string(),
    )
}

// ------------------------------------------------------------------------------------------
// C17: momentum agents trade symmetrically in rising and falling markets

#[derive(Clone, Debug, PartialEq, Eq, Hash, Serialize, Deserialize)]
pub struct MomCase {
    pub market: bool,
    pub asset: u8,
    pub tick: u32,
    /// centre level L = level_k * tick (2L is a multiple of the tick)
    pub level_k: u32,
    /// mid-price per period, in ticks relative to L
    pub path: Vec<i16>,
    /// periods in which the ask quote sits one tick further away (odd-width spread, half-tick mid)
    #[serde(default)]
    pub widen: Vec<bool>,
    pub n: u16,
    pub p_cancel: u16,
    pub trade_vol: u32,
    pub decay_milli: u32,
    pub demand_milli: u32,
    pub scale_milli: u32,
    pub ratio_milli: u32,
    pub mu_milli: i32,
    pub sigma_milli: u32,
    pub seed: u64,
    /// 0 = the harness quotes both sides; 1 = bids only, 2 = asks only (the mid-price of a one-sided book is
    /// 0.5 * (best price + empty-side sentinel): it moves with the quote like any other mid-price)
    #[serde(default)]
    pub one_sided: u8,
}

#[derive(Clone, Debug)]
struct UpdateRec {
    mid_seen: f64,
    /// (bid, market, price, vol, trader)
    new: Vec<(bool, bool, u32, u32, u32)>,
}

fn mom_run(c: &MomCase, mirror: bool) -> Vec<UpdateRec> {
    let a = if c.market { c.asset as usize % 2 } else { 0 };
    let tick = c.tick;
    let mut env = if c.market { EnvObj::M(MarketEnv::<2, 10>::new(0, [tick, tick], 1_000_000, true)) } else { EnvObj::S(Env::new(0, tick, 1_000_000, true)) };
    let params = momentum_params(tick, c.p_cancel, c.trade_vol, c.decay_milli, c.demand_milli, c.scale_milli, c.ratio_milli, c.mu_milli, c.sigma_milli);
    let mut agent = if c.market { AgentObj::MM(MomentumMarketAgent::new(100, c.n, a, params)) } else { AgentObj::M(MomentumAgent::new(100, c.n, params)) };
    let mut rng = Xoroshiro128StarStar::seed_from_u64(c.seed);
    let mut quotes: Vec<(usize, usize)> = vec![];
    let mut out = vec![];
    for (k, off) in c.path.iter().enumerate() {
        // (64-bit arithmetic: the centre level may lie anywhere in the price range, also above 2^31)
        let tick64 = tick as u64;
        let top = (u32::MAX as u64 - 1) / tick64 * tick64; // largest limit price on the grid below 2^32-1
        let p = ((c.level_k as i64 + *off as i64).max(4) as u64) * tick64;
        let wide = c.widen.get(k).cloned().unwrap_or(false);
        let (qb, qa) = ((p - tick64).min(top - 2 * tick64), (p + tick64 + if wide { tick64 } else { 0 }).min(top));
        // the mirrored run mirrors the quotes themselves about L
        let two_l = 2 * c.level_k as u64 * tick64;
        let (qb, qa) = if mirror { (two_l.saturating_sub(qa).max(tick64).min(top - 2 * tick64), two_l.saturating_sub(qb).max(2 * tick64).min(top)) } else { (qb, qa) };
        let (qb, qa) = (qb as u32, qa as u32);
        // replace the harness quotes: cancel the old ones, then place the new ones around p
        {
            let e = env.dynenv_mut();
            if !quotes.is_empty() {
                for q in quotes.drain(..) {
                    e.cancel_order(q);
                }
                e.step(&mut rng);
            }
            let vol = 10_000_000 + k as u32;
            if c.one_sided != 2 {
                if let Ok(id) = e.place_order(a, true, vol, HARNESS_TRADER, Some(qb)) {
                    quotes.push(id);
                }
            }
            if c.one_sided != 1 {
                if let Ok(id) = e.place_order(a, false, vol, HARNESS_TRADER, Some(qa)) {
                    quotes.push(id);
                }
            }
            e.step(&mut rng);
        }
        let mid_seen = env.dynenv().book(a).mid_price();
        let n0 = env.dynenv().get_orders(a).len();
        agent.update(&mut env, &mut rng);
        let new: Vec<(bool, bool, u32, u32, u32)> = env.dynenv().get_orders(a)[n0..].iter().map(|o| (o.bid, is_market(o), o.price, o.vol, o.trader)).collect();
        out.push(UpdateRec { mid_seen, new });
        env.dynenv_mut().step(&mut rng);
    }
    out
}

pub fn outcome_c17(c: &MomCase) -> Outcome {
    match guarded("C17", || run_mom(c)) {
        Ok((classes, nontrivial, res)) => Outcome { nontrivial: res.is_ok() && nontrivial, classes, result: res.err() },
        Err(f) => Outcome { nontrivial: false, classes: vec![("panics", 1)], result: Some(f) },
    }
}

fn run_mom(c: &MomCase) -> (Vec<(&'static str, u64)>, bool, Result<(), Failure>) {
    let r1 = mom_run(c, false);
    let r2 = mom_run(c, true);
    let two_l = 2.0 * (c.level_k as f64) * (c.tick as f64);
    let n = c.n as f64;
    let (decay, demand, scale, ratio) = (c.decay_milli as f64 / 1000.0, signed_milli(c.demand_milli), signed_milli(c.scale_milli), c.ratio_milli as f64 / 1000.0);
    let mut m = 0.0f64;
    let mut last: Option<f64> = None;
    let (mut sat_up, mut sat_down, mut buys, mut sells, mut compared, mut diverged) = (0u64, 0u64, 0u64, 0u64, 0u64, 0u64);
    let mut res: Result<(), Failure> = Ok(());
    let fail = |sig: &str, k: usize, msg: String| Failure::new("C17", sig, format!("update {}: {}", k, msg));
    let mut mirror_ok = true;
    for (k, u) in r1.iter().enumerate() {
        // the documented rule, recomputed from the observed mid-prices
        let mk = match last {
            Some(p) => m * (1.0 - decay) + decay * (u.mid_seen - p),
            None => 0.0,
        };
        let pm = if last.is_some() && c.n > 0 { (demand * (scale * mk).tanh() / n).abs() } else { 0.0 };
        let pl = ratio * pm;
        let nb_mkt = u.new.iter().filter(|o| o.0 && o.1).count();
        let ns_mkt = u.new.iter().filter(|o| !o.0 && o.1).count();
        let nb_lim = u.new.iter().filter(|o| o.0 && !o.1).count();
        let ns_lim = u.new.iter().filter(|o| !o.0 && !o.1).count();
        buys += (nb_mkt + nb_lim) as u64;
        sells += (ns_mkt + ns_lim) as u64;
        if res.is_ok() {
            if mk > 0.0 && (ns_mkt + ns_lim) > 0 {
                res = Err(fail("C17 sell orders while momentum is positive", k, format!("M = {}, {} sells", mk, ns_mkt + ns_lim)));
            } else if mk < 0.0 && (nb_mkt + nb_lim) > 0 {
                res = Err(fail("C17 buy orders while momentum is negative", k, format!("M = {}, {} buys", mk, nb_mkt + nb_lim)));
            } else if mk == 0.0 && !u.new.is_empty() {
                res = Err(fail("C17 orders while momentum is zero", k, format!("{} orders", u.new.len())));
            } else if pm >= 1.0 + 1e-9 {
                let want = c.n as usize;
                if mk > 0.0 {
                    sat_up += 1;
                    if nb_mkt != want {
                        res = Err(fail("C17 no buys for M>0 at saturated demand", k, format!("M = {}, |p| = {}, {} traders, {} market buys", mk, pm, want, nb_mkt)));
                    }
                } else if mk < 0.0 {
                    sat_down += 1;
                    if ns_mkt != want {
                        res = Err(fail("C17 no sells for M<0 at saturated demand", k, format!("M = {}, |p| = {}, {} traders, {} market sells", mk, pm, want, ns_mkt)));
                    }
                }
                if res.is_ok() && pl >= 1.0 + 1e-9 {
                    let got = if mk > 0.0 { nb_lim } else { ns_lim };
                    if got != want {
                        res = Err(fail("C17 limit orders missing at saturated demand", k, format!("M = {}, |p_limit| = {}, {} traders, {} limit orders", mk, pl, want, got)));
                    }
                }
            }
        }
        // one order per trader at most per kind
        m = mk;
        last = Some(u.mid_seen);
        // mirrored run: same seed, path mirrored about L
        if mirror_ok && res.is_ok() {
            let v = &r2[k];
            if (u.mid_seen + v.mid_seen - two_l).abs() > 1e-6 {
                // observed mids are no longer mirror images: stop comparing (outputs of this step not comparable)
                mirror_ok = false;
                diverged += 1;
            } else {
                compared += 1;
                // Limit prices mirror as 2L - p, except where the price range itself is not symmetric:
                // a buy price clamped to 0 corresponds to a sell price at or beyond 2L. Such prices are
                // normalised to one marker on both sides (the property speaks of sides and sizes).
                // The same at the top of the range: a sell price clamped to the highest grid price T corresponds to
                // a buy price at or below 2L - T.
                // (markers are negative numbers: they cannot collide with a genuine price)
                const CLAMPED: i64 = -1;
                const CLAMPED_TOP: i64 = -2;
                const MARKET_BUY: i64 = -10;
                const MARKET_SELL: i64 = -11;
                let t_top = (u32::MAX - u32::MAX % c.tick) as f64;
                // Some(marker) for market orders and clamped prices
                let norm = |bid: bool, market: bool, price: u32| -> Option<i64> {
                    if market {
                        return Some(if bid { MARKET_BUY } else { MARKET_SELL });
                    }
                    if (bid && price == 0) || (!bid && price as f64 >= two_l) {
                        Some(CLAMPED)
                    } else if (!bid && price as f64 >= t_top) || (bid && price as f64 <= two_l - t_top) {
                        Some(CLAMPED_TOP)
                    } else {
                        None
                    }
                };
                let mut x: Vec<(bool, bool, i64, u32, u32)> = u.new.iter().map(|o| (o.0, o.1, norm(o.0, o.1, o.2).unwrap_or(o.2 as i64), o.3, o.4)).collect();
                let mut y: Vec<(bool, bool, i64, u32, u32)> = v
                    .new
                    .iter()
                    .map(|o| {
                        let mirrored = match norm(o.0, o.1, o.2) {
                            Some(MARKET_BUY) => MARKET_SELL,
                            Some(MARKET_SELL) => MARKET_BUY,
                            Some(marker) => marker,
                            None => two_l as i64 - o.2 as i64,
                        };
                        (!o.0, o.1, mirrored, o.3, o.4)
                    })
                    .collect();
                x.sort();
                y.sort();
                if x != y {
                    res = Err(fail("C17 mirrored price path does not mirror the order flow", k, format!("path run emitted {:?}; mirrored run emitted (after exchanging buy/sell and mirroring prices) {:?}", x, y)));
                }
            }
        }
    }
    let classes = vec![
        ("momentum_cases", 1u64),
        ("updates", r1.len() as u64),
        ("saturated_updates_M_positive", sat_up),
        ("saturated_updates_M_negative", sat_down),
        ("buy_orders", buys),
        ("sell_orders", sells),
        ("updates_compared_with_mirror_run", compared),
        ("mirror_comparisons_stopped_mids_diverged", diverged),
        ("cases_with_harness_quotes_on_one_side_only", (c.one_sided != 0) as u64),
    ];
    (classes, sat_up >= 1 && sat_down >= 1, res)
}

pub fn mom_case_strategy() -> BoxedStrategy<MomCase> {
    // paths: rising, falling, zig-zag, flat, random walks
    let path = prop_oneof![
        2 => (1usize..40, 1i16..4).prop_map(|(n, d)| (0..n).map(|k| (k as i16) * d).collect::<Vec<i16>>()),
        2 => (1usize..40, 1i16..4).prop_map(|(n, d)| (0..n).map(|k| -(k as i16) * d).collect::<Vec<i16>>()),
        2 => (2usize..40, 1i16..6).prop_map(|(n, d)| (0..n).map(|k| if k % 2 == 0 { d } else { -d }).collect::<Vec<i16>>()),
        1 => (1usize..20).prop_map(|n| vec![0i16; n]),
        // long sustained trends (more than 64 consecutive signal steps on one side)
        1 => (66usize..230, 1i16..3, any::<bool>()).prop_map(|(n, d, up)| (0..n).map(|k| if up { (k as i16) * d } else { -(k as i16) * d }).collect::<Vec<i16>>()),
        4 => proptest::collection::vec(-3i16..=3, 2..50).prop_map(|steps| {
            let mut p = 0i16;
            steps.into_iter().map(|s| { p = (p + s).clamp(-150, 150); p }).collect::<Vec<i16>>()
        }),
    ];
    let widen = prop_oneof![1 => Just(vec![]), 2 => proptest::collection::vec(any::<bool>(), 0..50)];
    // centre level: the usual price levels, anywhere in the price range, or at its very top (in ticks; cut to the range below)
    let level = prop_oneof![4 => (500u32..100_000).boxed(), 2 => (500u32..=u32::MAX).boxed(), 1 => (0u32..5_000).prop_map(|d| u32::MAX - d).boxed()];
    (any::<bool>(), 0u8..2, 1u32..=10, level, (path, widen), prop_oneof![4 => 1u16..=8, 1 => 9u16..=20], prob_code(), 1u32..=100, (1u32..=1000, (prop_oneof![2 => 0u32..5_000, 3 => 5_000u32..200_000], 0u32..8).prop_map(|(d, s)| d | ((s == 0) as u32) << 31), (1u32..=5_000, 0u32..8).prop_map(|(d, s)| d | ((s == 0) as u32) << 31), prop_oneof![1 => Just(0u32), 2 => 0u32..3_000], -2000i32..=3000, 0u32..=3_000), any::<u64>())
        .prop_map(|(market, asset, tick, level_k, (path, widen), n, p_cancel, trade_vol, (decay_milli, demand_milli, scale_milli, ratio_milli, mu_milli, sigma_milli), seed)| {
            // long trends: no cancellations in half of them, so that resting orders accumulate
            let p_cancel = if path.len() > 64 && seed % 2 == 0 { 0 } else { p_cancel };
            let n = if path.len() > 64 { n.min(4) } else { n };
            // keep the whole path, the quotes around it and their mirror images inside the price range
            let level_k = level_k.min((u32::MAX - 1) / tick - 1_000);
            // one case in ten: the harness quotes one side only
            let one_sided = match (seed >> 17) % 20 { 0 => 1, 1 => 2, _ => 0 };
            MomCase { market, asset, tick, level_k, path, widen, n, p_cancel, trade_vol, decay_milli, demand_milli, scale_milli, ratio_milli, mu_milli, sigma_milli, seed, one_sided }
        })
        .boxed()
}

pub fn parts_c17(tier: Tier) -> (Vec<Part<Case>>, String) {
    (
        vec![Part { name: "momentum-paths".to_string(), kind: PartKind::Random { make: Box::new(|| mom_case_strategy().prop_map(Case::Momentum).boxed()), cases: tier.pick(400_000, 4_000_000) } }],
        "A case is a mid-price path (rising, falling, zig-zag, flat or a random walk, in ticks about a centre level L) imposed by large harness quotes that are replaced every period (spreads of even and odd width, so whole-tick and half-tick mid-prices occur), a MomentumAgent or MomentumMarketAgent with generated decay / scale / demand / order ratio / counts / cancel probability, and a seed. Oracle 1: the harness reads the mid-price the agent is about to see, recomputes M = m(1-decay) + decay(P-p) itself and requires: no sells while M > 0, no buys while M < 0, nothing while M = 0, and at saturated demand (|demand*tanh(scale*M)|/n >= 1) exactly one market order per trader on the side given by the sign of M (and one limit order per trader when order_ratio*|...| >= 1). Oracle 2 (metamorphic): the same seed on the path mirrored about L must emit, update by update, the same orders with buy and sell exchanged and limit prices mirrored; comparison stops once the observed mid-prices are no longer mirror images. Non-trivial: the path has at least one update with M > 0 and one with M < 0 at saturated demand.".to_string(),
    )
}
