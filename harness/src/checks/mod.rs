//! One module per property.
use crate::engine::Tier;

pub mod book;

pub fn run(id: &str, tier: Tier) -> i32 {
    match id {
        "C01" | "C02" | "C03" | "C04" | "C05" | "C06" | "C07" | "C12" | "C13" => book::run(id, tier),
        _ => {
            eprintln!("no check registered for {}", id);
            2
        }
    }
}

pub fn replay(id: &str, path: &str) -> i32 {
    match id {
        "C01" | "C02" | "C03" | "C04" | "C05" | "C06" | "C07" | "C12" | "C13" => book::replay(id, path),
        _ => {
            eprintln!("no check registered for {}", id);
            2
        }
    }
}
