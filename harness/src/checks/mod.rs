//! One generic case type for every check (so the engine is instantiated once and every replay
//! file is self-describing) and the per-property assembly of generators, oracles and rules.

use crate::engine::{replay_one, run_check, CheckSpec, Outcome, Part, Tier};
use crate::market::MarketCase;
use crate::ops::BookCase;
use serde::{Deserialize, Serialize};
use serde_json::json;

pub mod book;
pub mod envchk;
pub mod multi;

#[derive(Clone, Debug, PartialEq, Eq, Hash, Serialize, Deserialize)]
pub enum Case {
    Book(BookCase),
    Market(MarketCase),
    Trunc(multi::TruncCase),
    Env(crate::envcase::EnvCase),
}

const BOOK_IDS: [&str; 9] = ["C01", "C02", "C03", "C04", "C05", "C06", "C07", "C12", "C13"];

fn static_id(id: &str) -> Option<&'static str> {
    const ALL: [&str; 20] = ["C01", "C02", "C03", "C04", "C05", "C06", "C07", "C08", "C09", "C10", "C11", "C12", "C13", "C14", "C15", "C16", "C17", "C18", "C19", "C20"];
    ALL.iter().find(|x| **x == id).cloned()
}

pub fn outcome(id: &'static str, case: &Case) -> Outcome {
    match case {
        Case::Book(c) => book::outcome(id, c),
        Case::Market(c) => multi::market_outcome(id, c),
        Case::Trunc(c) => multi::trunc_outcome(id, c),
        Case::Env(c) => envchk::env_outcome(id, c),
    }
}

fn simplify(case: &Case) -> Vec<Case> {
    match case {
        Case::Book(c) => book::simplify(c).into_iter().map(Case::Book).collect(),
        Case::Market(c) => multi::simplify_market(c).into_iter().map(Case::Market).collect(),
        Case::Trunc(_) => vec![],
        Case::Env(c) => envchk::simplify_env(c).into_iter().map(Case::Env).collect(),
    }
}

pub fn spec(id: &'static str, tier: Tier) -> Option<CheckSpec<Case>> {
    let mut parts: Vec<Part<Case>> = vec![];
    let mut rule = String::new();
    let mut assumptions: Vec<String> = vec![];
    if BOOK_IDS.contains(&id) {
        parts.extend(book::parts(id, tier));
        rule = book::rule(id);
        assumptions = book::assumptions(id);
    }
    if let Some((p, r)) = multi::parts(id, tier) {
        parts.extend(p);
        if rule.is_empty() {
            rule = r;
        } else {
            rule = format!("{} || Multi-asset / file parts: {}", rule, r);
        }
    }
    if let Some((p, r)) = envchk::parts(id, tier) {
        parts.extend(p);
        if rule.is_empty() {
            rule = r;
        } else {
            rule = format!("{} || Environment parts: {}", rule, r);
        }
    }
    if parts.is_empty() {
        return None;
    }
    if assumptions.is_empty() {
        assumptions = book::assumptions(id);
    }
    Some(CheckSpec { id, tier, rule, assumptions, parts, run: Box::new(move |c| outcome(id, c)), simplify: Some(Box::new(simplify)), extra: json!({}) })
}

pub fn run(id: &str, tier: Tier) -> i32 {
    let Some(sid) = static_id(id) else {
        eprintln!("unknown property {}", id);
        return 2;
    };
    match spec(sid, tier) {
        Some(s) => run_check(s),
        None => {
            eprintln!("no check registered for {}", id);
            2
        }
    }
}

pub fn replay(id: &str, path: &str) -> i32 {
    let Some(sid) = static_id(id) else {
        eprintln!("unknown property {}", id);
        return 2;
    };
    replay_one::<Case>(sid, path, |c| outcome(sid, c))
}
