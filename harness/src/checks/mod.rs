//! One generic case type for every check (so the engine is instantiated once and every replay
//! file is self-describing) and the per-property assembly of generators, oracles and rules.

use crate::engine::{replay_one, run_check, CheckSpec, Outcome, Part, Tier};
use crate::market::MarketCase;
use crate::ops::BookCase;
use serde::{Deserialize, Serialize};
use serde_json::json;

pub mod agents;
pub mod book;
pub mod c09;
pub mod c15;
pub mod c20;
pub mod envchk;
pub mod multi;

#[derive(Clone, Debug, PartialEq, Eq, Hash, Serialize, Deserialize)]
pub enum Case {
    Book(BookCase),
    Market(MarketCase),
    Trunc(multi::TruncCase),
    Env(crate::envcase::EnvCase),
    Shuffle(c15::ShuffleCase),
    Agent(agents::AgentCase),
    Momentum(agents::MomCase),
    Shape(c20::ShapeCase),
    Sim(c09::SimCase),
}

const BOOK_IDS: [&str; 9] = ["C01", "C02", "C03", "C04", "C05", "C06", "C07", "C12", "C13"];

fn static_id(id: &str) -> Option<&'static str> {
    const ALL: [&str; 20] = ["C01", "C02", "C03", "C04", "C05", "C06", "C07", "C08", "C09", "C10", "C11", "C12", "C13", "C14", "C15", "C16", "C17", "C18", "C19", "C20"];
    ALL.iter().find(|x| **x == id).cloned()
}

pub fn outcome(id: &'static str, case: &Case) -> Outcome {
    match case {
        Case::Book(c) => book::outcome(id, c),
        Case::Market(c) => multi::market_outcome(id, c),
        Case::Trunc(c) => multi::trunc_outcome(id, c),
        Case::Env(c) => envchk::env_outcome(id, c),
        Case::Shuffle(c) => c15::outcome(id, c),
        Case::Agent(c) => agents::outcome_c16(c),
        Case::Momentum(c) => agents::outcome_c17(c),
        Case::Shape(c) => c20::outcome(c),
        Case::Sim(c) => c09::outcome(c),
    }
}

fn simplify(case: &Case) -> Vec<Case> {
    match case {
        Case::Book(c) => book::simplify(c).into_iter().map(Case::Book).collect(),
        Case::Market(c) => multi::simplify_market(c).into_iter().map(Case::Market).collect(),
        Case::Trunc(_) => vec![],
        Case::Env(c) => envchk::simplify_env(c).into_iter().map(Case::Env).collect(),
        Case::Shuffle(_) => vec![],
        Case::Agent(_) => vec![],
        Case::Momentum(_) => vec![],
        Case::Shape(_) => vec![],
        Case::Sim(_) => vec![],
    }
}

pub fn spec(id: &'static str, tier: Tier) -> Option<CheckSpec<Case>> {
    let mut parts: Vec<Part<Case>> = vec![];
    let mut rule = String::new();
    let mut assumptions: Vec<String> = vec![];
    if BOOK_IDS.contains(&id) {
        parts.extend(book::parts(id, tier));
        rule = book::rule(id);
        assumptions = book::assumptions(id);
    }
    if let Some((p, r)) = multi::parts(id, tier) {
        parts.extend(p);
        if rule.is_empty() {
            rule = r;
        } else {
            rule = format!("{} || Multi-asset / file parts: {}", rule, r);
        }
    }
    if let Some((p, r)) = envchk::parts(id, tier) {
        parts.extend(p);
        if rule.is_empty() {
            rule = r;
        } else {
            rule = format!("{} || Environment parts: {}", rule, r);
        }
    }
    if id == "C15" {
        let (p, r) = c15::parts(tier);
        parts.extend(p);
        rule = r;
        assumptions = vec![
            "every instruction of a measured step reveals its position through a timestamp (arrival time of a new non-crossing order, end time of a cancelled / fully filled re-priced order)".to_string(),
            "the concentration bound assumes the seeded Xoroshiro128** streams behave like independent uniform draws; false-alarm probability below 1e-9 per run under that assumption".to_string(),
            "biases smaller than the stated deviation t/N are not detectable at this sample size".to_string(),
        ];
    }
    if id == "C16" {
        let (p, r) = agents::parts_c16(tier);
        parts.extend(p);
        rule = r;
        assumptions = vec![
            "parameterisations consistent with the environment: agent tick size = environment tick size, non-empty tick / volume ranges, finite distribution parameters".to_string(),
            "the harness lets exactly one agent object update per step, so every instruction of that step is attributable to it".to_string(),
            "a scripted RngCore and boundary seeds are legitimate inputs: the agents are generic over RngCore and every clause checked is universal over draws".to_string(),
        ];
    }
    if id == "C17" {
        let (p, r) = agents::parts_c17(tier);
        parts.extend(p);
        rule = r;
        assumptions = vec![
            "the harness's recomputation of M uses the documented recurrence on the mid-prices it reads immediately before each update".to_string(),
            "the deterministic count rule is only asserted with a margin (|p| >= 1 + 1e-9) so that floating-point rounding at the saturation boundary cannot raise an alarm".to_string(),
        ];
    }
    if id == "C20" {
        let (p, r) = c20::parts(tier);
        parts.extend(p);
        rule = r;
        assumptions = vec![
            "struct shapes are compile-time objects: they are generated as source by harness/build.rs from a fixed seed (64 fixed + 96 generated shapes per macro) and compiled into the harness".to_string(),
            "the hand-written reference sequence is generated together with each struct (member calls in declaration order, nested sets expanded recursively)".to_string(),
        ];
    }
    if id == "C09" {
        let (p, r) = c09::parts(tier);
        parts.extend(p);
        rule = r;
        assumptions = vec![
            "sources of nondeterminism that can be varied from inside the sandbox: OS process, ASLR, environment block, working directory, per-process / per-instance hash seeds, progress-bar branch".to_string(),
            "wall-clock dependence would only show if runs straddle the dependency's granularity (child processes start at different times)".to_string(),
        ];
    }
    if parts.is_empty() {
        return None;
    }
    if assumptions.is_empty() {
        assumptions = book::assumptions(id);
    }
    Some(CheckSpec { id, tier, rule, assumptions, parts, run: Box::new(move |c| outcome(id, c)), simplify: Some(Box::new(simplify)), extra: json!({}), hang_limit_s: if id == "C09" || id == "C15" { None } else { Some(20) } })
}

pub fn run(id: &str, tier: Tier) -> i32 {
    let Some(sid) = static_id(id) else {
        eprintln!("unknown property {}", id);
        return 2;
    };
    match spec(sid, tier) {
        Some(s) => run_check(s),
        None => {
            eprintln!("no check registered for {}", id);
            2
        }
    }
}

pub fn replay(id: &str, path: &str) -> i32 {
    let Some(sid) = static_id(id) else {
        eprintln!("unknown property {}", id);
        return 2;
    };
    replay_one::<Case>(sid, path, |c| outcome(sid, c))
}
