//! Multi-asset market checks (C14 market level; market parts of C07, C12, C13) and snapshot-file
//! truncation (C07).

use super::Case;
use crate::dynbook::{book_from_file, book_from_str};
use crate::engine::{guarded, Outcome, Part, PartKind, Tier};
use crate::gen::{book_case_strategy, market_case_strategy, GenCfg};
use crate::market::{market_from_file, market_from_str, new_market, run_market_case, MarketCase, MarketOracles};
use crate::ops::{build_book, BookCase, Failure, Op};
use proptest::prelude::*;
use serde::{Deserialize, Serialize};

fn oracles_for(id: &str) -> MarketOracles {
    let mut o = MarketOracles::default();
    match id {
        "C14" => o.standalone = true,
        "C07" => o.lockstep = true,
        "C12" => o.grid = true,
        "C13" => o.trading = true,
        _ => {}
    }
    o
}

pub fn market_outcome(id: &'static str, case: &MarketCase) -> Outcome {
    let orc = oracles_for(id);
    match guarded(id, || run_market_case(case, orc, id)) {
        Ok((f, res)) => {
            let nontrivial = match id {
                "C14" => f.assets_with_orders >= 2 && f.equal_local_ids_differ,
                "C07" => f.reload_with_deep_queue && f.traded_after_reload,
                "C12" => f.offgrid_nonempty,
                "C13" => f.crossed_while_off && f.traded_after_reenable,
                _ => false,
            };
            let b = |x: bool| x as u64;
            Outcome {
                nontrivial: res.is_ok() && nontrivial,
                classes: vec![
                    ("market_cases", 1),
                    ("market_ops_executed", f.ops_executed),
                    ("market_trades", f.trades),
                    ("market_2plus_assets_with_resting_orders", b(f.assets_with_orders >= 2)),
                    ("market_2plus_assets_traded", b(f.assets_with_trades >= 2)),
                    ("market_equal_local_ids_differ", b(f.equal_local_ids_differ)),
                    ("market_reloads", f.reloads),
                    ("market_offgrid_creates", f.offgrid_create),
                    ("market_toggles", f.toggles),
                    ("market_ops_through_get_order_book_mut", f.direct_ops),
                    ("market_clock_moves_of_one_book_only", f.direct_clock_moves),
                    ("market_ops_after_which_no_market_data_getter_was_called", f.quiet_ops),
                ],
                result: res.err(),
            }
        }
        Err(f) => Outcome { nontrivial: false, classes: vec![("panics", 1)], result: Some(f) },
    }
}

pub fn simplify_market(c: &MarketCase) -> Vec<MarketCase> {
    let mut v = vec![];
    for i in (0..c.ops.len()).rev() {
        let mut d = c.clone();
        d.ops.remove(i);
        v.push(d);
    }
    v
}

// ------------------------------------------------------------------------------------------
// truncation of snapshot files

#[derive(Clone, Debug, PartialEq, Eq, Hash, Serialize, Deserialize)]
pub struct TruncCase {
    pub book: BookCase,
    /// 0 = single book; 1..=4 = Market with that many assets, each holding the same history
    pub market_assets: u8,
    pub pretty: bool,
    /// generated offsets (mapped monotonically onto 0..len) tried in addition to the systematic ones
    pub picks: Vec<u16>,
}

fn market_levels_for(l: usize) -> usize {
    *crate::market::MARKET_LEVELS.iter().min_by_key(|x| (**x as i64 - l as i64).abs()).unwrap()
}

pub fn trunc_outcome(id: &'static str, c: &TruncCase) -> Outcome {
    let r = guarded(id, || run_trunc(c));
    match r {
        Ok((n_file, n_str, len, res)) => Outcome {
            nontrivial: res.is_ok() && len > 200,
            classes: vec![("truncation_cases", 1), ("truncated_files_loaded", n_file), ("truncated_strings_parsed", n_str), ("snapshot_bytes", len as u64)],
            result: res.err(),
        },
        Err(f) => Outcome { nontrivial: false, classes: vec![("panics", 1)], result: Some(f) },
    }
}

fn run_trunc(c: &TruncCase) -> (u64, u64, usize, Result<(), Failure>) {
    let book = build_book(&c.book);
    let dir = crate::engine::scratch_dir();
    let path = dir.join(format!("trunc-{}-{:?}.json", std::process::id(), std::thread::current().id()));
    let (assets, levels) = (c.market_assets as usize, if c.market_assets == 0 { c.book.levels } else if c.market_assets > 4 { if c.book.levels % 2 == 0 { 10 } else { 3 } } else { market_levels_for(c.book.levels) });
    // write the snapshot through the documented file route
    let text: Vec<u8> = if assets == 0 {
        if let Err(e) = book.save_json(&path, c.pretty) {
            return (0, 0, 0, Err(Failure::new("C07", "C07 save_json failed", e)));
        }
        std::fs::read(&path).unwrap_or_default()
    } else {
        // a market whose assets all replay the same history
        let ticks = vec![c.book.tick; assets];
        let mut m = new_market(assets, levels, c.book.t0, &ticks, c.book.trading);
        for a in 0..assets {
            for op in c.book.ops.iter() {
                match op {
                    Op::CreatePlace { bid, vol, trader, price } => {
                        let _ = m.create_and_place_order(a, *bid, (*vol).clamp(1, 1 << 20), *trader, *price);
                    }
                    Op::Create { bid, vol, trader, price } => {
                        let _ = m.create_order(a, *bid, (*vol).clamp(1, 1 << 20), *trader, *price);
                    }
                    Op::Advance(dt) => {
                        let t = m.get_time().saturating_add((*dt).min(1 << 40));
                        m.set_time(t)
                    }
                    _ => {}
                }
            }
        }
        if let Err(e) = m.save_json(&path, c.pretty) {
            return (0, 0, 0, Err(Failure::new("C07", "C07 save_json failed", e)));
        }
        std::fs::read(&path).unwrap_or_default()
    };
    let len = text.len();
    // the complete file must load
    let full_ok = if assets == 0 { book_from_file(levels, &path).is_ok() } else { market_from_file(assets, levels, &path).is_ok() };
    if !full_ok {
        let _ = std::fs::remove_file(&path);
        return (0, 0, len, Err(Failure::new("C07", "C07 complete snapshot file fails to load", format!("{} bytes", len))));
    }
    let mut offsets: Vec<usize> = vec![];
    if len <= 700 {
        offsets.extend(0..len);
    } else {
        offsets.extend(0..160);
        offsets.extend(len - 160..len);
        for p in c.picks.iter() {
            offsets.push((*p as usize * len) >> 16);
        }
    }
    offsets.sort_unstable();
    offsets.dedup();
    let mut n_file = 0;
    for &k in offsets.iter() {
        if std::fs::write(&path, &text[..k]).is_err() {
            continue;
        }
        n_file += 1;
        let res = std::panic::catch_unwind(std::panic::AssertUnwindSafe(|| if assets == 0 { book_from_file(levels, &path).is_ok() } else { market_from_file(assets, levels, &path).is_ok() }));
        let bad = match res {
            Ok(false) => None,
            Ok(true) => Some(("C07 truncated snapshot file loaded as a book", format!("file of {} bytes cut to {} bytes was accepted", len, k))),
            Err(_) => Some(("C07 truncated snapshot file aborts the process", format!("file of {} bytes cut to {} bytes: {}", len, k, crate::engine::last_panic()))),
        };
        if let Some((sig, msg)) = bad {
            let _ = std::fs::remove_file(&path);
            return (n_file, 0, len, Err(Failure::new("C07", sig, msg)));
        }
    }
    let _ = std::fs::remove_file(&path);
    // every offset through the in-memory route as well
    let mut n_str = 0;
    if let Ok(s) = std::str::from_utf8(&text) {
        let all: Vec<usize> = if len <= 1500 { (0..len).collect() } else { offsets.clone() };
        for k in all {
            if !s.is_char_boundary(k) {
                continue;
            }
            n_str += 1;
            let ok = if assets == 0 { book_from_str(levels, &s[..k]).is_ok() } else { market_from_str(assets, levels, &s[..k]).is_ok() };
            if ok {
                return (n_file, n_str, len, Err(Failure::new("C07", "C07 truncated snapshot text parsed as a book", format!("text of {} bytes cut to {} bytes was accepted", len, k))));
            }
        }
    }
    (n_file, n_str, len, Ok(()))
}

// ------------------------------------------------------------------------------------------

fn market_part(name: &str, cfg: GenCfg, max_assets: usize, cases: u64) -> Part<Case> {
    Part { name: name.to_string(), kind: PartKind::Random { make: Box::new(move || market_case_strategy(cfg.clone(), max_assets).prop_map(Case::Market).boxed()), cases } }
}

pub fn parts(id: &'static str, tier: Tier) -> Option<(Vec<Part<Case>>, String)> {
    let len = tier.pick(60, 200);
    match id {
        "C14" => {
            let mut c = GenCfg::base(len);
            c.w_modify = 12;
            c.w_trading = 3;
            c.w_reset = 2;
            c.start_off_pct = 10;
            let depth = tier.pick(3u32, 4u32);
            let radix = 2 * 19u64;
            let ex = Part {
                name: "market-exhaustive-two-assets".to_string(),
                kind: PartKind::Exhaustive {
                    total: radix.pow(depth),
                    decode: Box::new(move |mut i| {
                        let mut ops = vec![];
                        for _ in 0..depth {
                            let d = i % radix;
                            i /= radix;
                            let a = (d % 2) as u8;
                            let c = (d / 2) as usize;
                            ops.push((a, Op::Advance(1)));
                            if c < 16 {
                                ops.push((a, crate::gen::core_op(c, 2, 50)));
                            } else {
                                ops.push((a, Op::Cancel(crate::gen::exact_ref(c - 16))));
                            }
                        }
                        // all-asset drain so that queue order on both assets is exposed
                        for a in 0..2u8 {
                            ops.push((a, Op::Advance(1)));
                            ops.push((a, Op::CreatePlace { bid: false, vol: 6, trader: 77, price: None }));
                            ops.push((a, Op::CreatePlace { bid: true, vol: 6, trader: 77, price: None }));
                        }
                        Some(Case::Market(MarketCase { ticks: vec![2, 2], levels: 3, trading: true, t0: 0, ops, zero_vols: false, direct_ops: false, quiet: 0 }))
                    }),
                    description: format!("every sequence of exactly {} operations on Market<2,3>, each = (asset 0 or 1) x (the 16 core create-and-place ops of C01 or cancel of local id 0..2), clock advanced before every op, then market orders draining both assets; both assets share local ids by construction", depth),
                },
            };
            let mut v = vec![ex, market_part("market-random-dense", c.clone(), 16, tier.pick(120_000, 2_500_000))];
            let mut dd = c.clone();
            dd.direct_pct = 35;
            dd.w_trading = 8;
            // a market snapshot / restore in the middle of a history: afterwards each asset must still equal
            // its (never restored) stand-alone book
            dd.w_reload = 2;
            v.push(market_part("market-random-dense-direct-book-access", dd, 16, tier.pick(60_000, 1_200_000)));
            let mut z = c.clone();
            z.zero_vol_pct = 12;
            v.push(market_part("market-random-dense-with-zero-volumes", z, 4, tier.pick(40_000, 800_000)));
            // arbitrary prices (C14 has no clause about prices): bids resting at price 0, asks at 2^32-1, off-grid
            // requests that market and stand-alone book must both reject
            let mut ap = c.clone();
            ap.offgrid = true;
            ap.w_modify = 12;
            v.push(market_part("market-random-arbitrary-prices", ap, 4, tier.pick(40_000, 800_000)));
            c.wide = true;
            v.push(market_part("market-random-wide", c, 4, tier.pick(40_000, 800_000)));
            Some((v, "A market case is one interleaved operation history over 1..4 assets (8, 11, 12 or 16 assets in 15 % of the cases of two parts) with per-asset tick sizes on Market<A,L>, driven in lock-step with A stand-alone real OrderBook<L> that receive only their own operations and every clock / trading broadcast; after EVERY operation each asset's full snapshot must equal its stand-alone book's, returned ids must be (asset, local id), and every all-asset query must equal the per-asset values in asset order. Non-trivial: >= 2 assets hold resting orders and orders with equal local ids differ across assets.".to_string()))
        }
        "C07" => {
            let mut c = GenCfg::base(len);
            c.w_modify = 10;
            c.w_reload = 6;
            c.w_trading = 2;
            let mut v = vec![market_part("market-random-reload", c.clone(), 16, tier.pick(30_000, 600_000))];
            // operations applied to an asset's own book through get_order_book_mut, incl. clock moves of one book
            // only (the books of the market then show different clocks when the snapshot is taken) and per-book flags
            let mut dd = c.clone();
            dd.direct_pct = 35;
            dd.w_advance = 10;
            dd.w_trading = 6;
            v.push(market_part("market-random-reload-direct-book-access", dd, 4, tier.pick(30_000, 600_000)));
            let mut b = GenCfg::base(tier.pick(40, 120));
            b.w_modify = 10;
            b.w_trading = 3;
            b.start_off_pct = 10;
            b.drain = false;
            b.w_create = 8;
            let cases = tier.pick(900, 30_000);
            let n_picks: usize = tier.pick(96, 512);
            for wide in [false, true] {
                let mut b = b.clone();
                b.wide = wide;
                v.push(Part {
                    name: format!("truncation-{}", if wide { "wide" } else { "dense" }),
                    kind: PartKind::Random {
                        make: Box::new(move || {
                            (book_case_strategy(b.clone()), prop_oneof![6 => Just(0u8), 2 => 1u8..=4, 1 => proptest::sample::select(vec![8u8, 11, 12, 16])], any::<bool>(), proptest::collection::vec(any::<u16>(), n_picks))
                                .prop_map(|(book, market_assets, pretty, picks)| Case::Trunc(TruncCase { book, market_assets, pretty, picks }))
                                .boxed()
                        }),
                        cases: cases / if wide { 3 } else { 1 },
                    },
                });
            }
            Some((v, "Market cases: Market<A, L> snapshots (A in 1..4, and 8, 11, 12, 16 in 15 % of the cases) at generated positions (in one part with 35 % of the operations applied to an asset's own book through get_order_book_mut, incl. clock moves and trading flags of one book only), original and reloaded market driven in lock-step (non-trivial: snapshot with >= 2 resting orders at one price and trades after the reload). Truncation cases: the snapshot file of a generated book / market state (save_json, compact or pretty) is cut at every byte offset (files <= 700 bytes) or at the first 160, last 160 and 96 (quick) / 512 (thorough) generated offsets, each truncated file passed to load_json, which must return Err (Ok or a panic is a violation); additionally the prefixes (all of them for snapshots <= 1500 bytes, else the same offsets) are parsed through the in-memory route (non-trivial: snapshot longer than 200 bytes).".to_string()))
        }
        "C12" => {
            let mut c = GenCfg::base(len);
            c.offgrid = true;
            c.w_modify = 16;
            c.w_create = 10;
            Some((vec![market_part("market-random-arbitrary-prices", c, 16, tier.pick(40_000, 800_000))], "Market cases: creations and modifications with arbitrary prices through Market<1..4,L>; creation iff-rule, returned id (asset, next local id), rejected creation leaves every asset's snapshot unchanged, every limit price on its asset's grid after every op.".to_string()))
        }
        "C13" => {
            let mut c = GenCfg::base(len);
            c.w_trading = 8;
            c.w_modify = 12;
            c.start_off_pct = 30;
            let mut dd = c.clone();
            dd.direct_pct = 35;
            Some((vec![market_part("market-random-toggles", c, 16, tier.pick(40_000, 800_000)), market_part("market-random-toggles-direct-book-access", dd, 4, tier.pick(40_000, 800_000))], "Market cases: trading toggled at market level (fan-out to every asset): toggle changes nothing, no trade is logged on any asset while disabled, market orders are rejected.".to_string()))
        }
        _ => None,
    }
}
