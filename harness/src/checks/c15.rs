//! C15: processing order within a step is an unbiased shuffle determined only by the generator.
//!
//! Every instruction of a measured step reveals its processed position: a new non-crossing limit
//! order by its arrival time, a cancel of a resting order by the order's end time, a re-pricing
//! that crosses a dedicated quote by the end time of the (fully filled) order.

use super::Case;
use crate::engine::{guarded, Outcome, Part, PartKind, Tier};
use crate::envs::{new_env, DynEnv};
use crate::model::St;
use crate::ops::Failure;
use proptest::prelude::*;
use rand::SeedableRng;
use rand_xoshiro::Xoroshiro128StarStar;
use serde::{Deserialize, Serialize};

#[derive(Clone, Debug, PartialEq, Eq, Hash, Serialize, Deserialize)]
pub enum ShuffleCase {
    /// determinism and content independence for one generator state
    Det {
        n: usize,
        market: bool,
        seed: u64,
        layout_a: Vec<u8>,
        layout_b: Vec<u8>,
        #[serde(default = "yes")]
        trading: bool,
        /// time units per step: smaller than the batch in some cases (an overfull step is shuffled like any other)
        #[serde(default = "thousand")]
        step_size: u64,
    },
    /// uniformity campaign: `steps` seeded steps of batch size `n`
    Uniform {
        n: usize,
        market: bool,
        stream: bool,
        steps: u64,
        seed: u64,
        alpha_exp: u32,
        cases_in_run: u32,
        #[serde(default = "yes")]
        trading: bool,
        /// every step of the campaign runs on ONE environment (and one generator stream): state an environment
        /// carries from step to step (queue storage, counters) is part of the sample
        #[serde(default)]
        long_lived: bool,
        #[serde(default = "thousand")]
        step_size: u64,
    },
}

fn thousand() -> u64 {
    1_000
}

fn yes() -> bool {
    true
}

const MID: u32 = 1000;

fn splitmix(x: &mut u64) -> u64 {
    *x = x.wrapping_add(0x9E37_79B9_7F4A_7C15);
    let mut z = *x;
    z = (z ^ (z >> 30)).wrapping_mul(0xBF58_476D_1CE4_E5B9);
    z = (z ^ (z >> 27)).wrapping_mul(0x94D0_49BB_1331_11EB);
    z ^ (z >> 31)
}

/// One measured step on a fresh environment. `layout[i]` = kind of the i-th submitted instruction
/// (0 new ask, 1 new bid below the quote, 2 cancel of a resting order, 3 crossing re-price, 4 cancel of
/// the most recent order created earlier in this same batch - or a new ask if there is none, 5 cancel of an order
/// that was already cancelled in an earlier step, 6 modification of a resting order to an off-grid price).
/// Returns the processed position of every submitted instruction; `None` for a kind-4 cancel that was
/// processed before the placement it refers to (it is then a no-op and leaves no timestamp).
fn measured_step(n: usize, market: bool, trading: bool, step_size: u64, layout: &[u8], rng: &mut Xoroshiro128StarStar) -> Result<Vec<Option<usize>>, String> {
    let assets = if market { 2 } else { 0 };
    let na = assets.max(1);
    // tick 2 (every generated price is doubled): an odd price is off the grid
    const TK: u32 = 2;
    let ticks = [TK, TK, TK, TK];
    let mut env: Box<dyn DynEnv> = new_env(assets, 1, 0, &ticks, step_size.max(1), true);
    // warm-up: the quote and one resting ask per future cancel / re-price, processed with a fixed generator
    let mut warm = Xoroshiro128StarStar::seed_from_u64(1);
    for a in 0..na {
        env.place_order(a, true, 1 << 30, 9, Some((MID - 5) * TK)).map_err(|e| e)?;
    }
    let mut pool: Vec<(usize, usize)> = vec![];
    for (i, k) in layout.iter().enumerate() {
        if *k == 2 || *k == 3 || *k == 6 {
            let a = i % na;
            let id = env.place_order(a, false, 1, 7, Some((MID + 1 + (i as u32 % 10)) * TK)).map_err(|e| e)?;
            pool.push(id);
        }
    }
    // orders that are already finished when the measured step begins (kind 5: a cancel of such an order is an
    // instruction like any other - it takes its slot in the processing order although it changes nothing)
    let mut dead: Vec<(usize, usize)> = vec![];
    for (i, k) in layout.iter().enumerate() {
        if *k == 5 {
            let a = i % na;
            dead.push(env.place_order(a, false, 1, 8, Some((MID + 12 + (i as u32 % 5)) * TK)).map_err(|e| e)?);
        }
    }
    // spread the warm-up over several steps so that it fits the step size
    env.step(&mut warm);
    if !dead.is_empty() {
        for id in dead.iter() {
            env.cancel_order(*id);
        }
        env.step(&mut warm);
    }
    if !trading {
        // no-trading period: new orders and cancels still reveal their positions; a crossing
        // re-price would not trade, so it is replaced by a cancel (layout kind 3 -> 2)
        env.disable_trading();
    }
    let start = env.time();
    // reader kind: 0 = by arrival time, 1 = by end time (must be terminal), 2 = by end time if cancelled
    let mut readers: Vec<(u8, (usize, usize))> = vec![];
    let mut p = 0;
    let mut d = 0;
    let mut last_new: Option<(usize, usize)> = None;
    for (i, k) in layout.iter().enumerate() {
        let a = i % na;
        let k = if *k == 4 && last_new.is_none() { 0 } else { *k };
        match k {
            0 => {
                let id = env.place_order(a, false, 1 + (i as u32 % 3), 1, Some((MID + 1 + (i as u32 % 10)) * TK))?;
                readers.push((0, id));
                last_new = Some(id);
            }
            1 => {
                let id = env.place_order(a, true, 1 + (i as u32 % 3), 2, Some((MID - 15 + (i as u32 % 9)) * TK))?;
                readers.push((0, id));
                last_new = Some(id);
            }
            2 => {
                let id = pool[p];
                p += 1;
                env.cancel_order(id);
                readers.push((1, id));
            }
            4 => {
                // each same-batch order is cancelled at most once
                let id = last_new.take().unwrap();
                env.cancel_order(id);
                readers.push((2, id));
            }
            6 => {
                // a modification to a price that is OFF the tick grid: the book ignores it when it is processed, but it
                // is an instruction of the batch like any other and takes its slot
                let id = pool[p];
                p += 1;
                env.modify_order(id, Some((MID + 30) * TK + 1), None);
                readers.push((3, id));
            }
            5 => {
                let id = dead[d];
                d += 1;
                env.cancel_order(id);
                readers.push((3, id));
            }
            _ => {
                let id = pool[p];
                p += 1;
                if trading {
                    env.modify_order(id, Some((MID - 5) * TK), None);
                } else {
                    env.cancel_order(id);
                }
                readers.push((1, id));
            }
        }
    }
    env.step(rng);
    let mut pos = vec![None; n];
    let mut seen = vec![false; n];
    for (i, (kind, id)) in readers.iter().enumerate() {
        if *kind == 3 {
            continue; // a cancel of an order that was already finished: no timestamp
        }
        let o = env.order(*id);
        let t = match *kind {
            0 => {
                if o.status != St::Active && o.status != St::Cancelled {
                    return Err(format!("new order {:?} is {:?} after the step", id, o.status));
                }
                o.arr_time
            }
            1 => {
                if !o.status.terminal() {
                    return Err(format!("order {:?} targeted by instruction {} is still {:?}", id, i, o.status));
                }
                o.end_time
            }
            _ => {
                if o.status != St::Cancelled {
                    continue; // processed before the placement: no timestamp
                }
                o.end_time
            }
        };
        let q = t.wrapping_sub(start);
        if q >= n as u64 || seen[q as usize] {
            return Err(format!("processed positions are not a permutation of 0..{}: instruction {} at time {} (start {})", n, i, t, start));
        }
        seen[q as usize] = true;
        pos[i] = Some(q as usize);
    }
    Ok(pos)
}

/// One environment for a whole campaign. Each step submits `n` instructions: cancels of the orders the previous
/// step created (at most n/2) and new non-crossing limit orders, in a generated submission order; every one
/// reveals its processed position (end time / arrival time). The book stays small, the environment ages.
struct LongLived {
    env: Box<dyn DynEnv>,
    prev: Vec<(usize, usize)>,
    na: usize,
    market: bool,
    age: u64,
}

/// an environment is replaced after this many steps (its order table only ever grows)
const LONG_LIVED_STEPS: u64 = 20_000;

impl LongLived {
    fn new(market: bool) -> Self {
        let assets = if market { 2 } else { 0 };
        LongLived { env: new_env(assets, 1, 0, &[1u32, 1, 1, 1], 1_000, true), prev: vec![], na: assets.max(1), market, age: 0 }
    }
    fn step(&mut self, n: usize, s: &mut u64, rng: &mut Xoroshiro128StarStar) -> Result<Vec<usize>, String> {
        self.age += 1;
        if self.age > LONG_LIVED_STEPS {
            *self = LongLived::new(self.market);
        }
        let n_cancel = self.prev.len().min(n / 2);
        // submission order: which of the n slots are cancels
        let mut is_cancel = vec![false; n];
        let mut left = n_cancel;
        for i in 0..n {
            if left > 0 && (splitmix(s) % (n - i) as u64) < left as u64 {
                is_cancel[i] = true;
                left -= 1;
            }
        }
        let start = self.env.time();
        let mut readers: Vec<(bool, (usize, usize))> = vec![];
        let mut created = vec![];
        let mut pc = 0;
        for i in 0..n {
            if is_cancel[i] {
                let id = self.prev[pc];
                pc += 1;
                self.env.cancel_order(id);
                readers.push((true, id));
            } else {
                let a = i % self.na;
                let bid = splitmix(s) % 2 == 0;
                let price = if bid { MID - 15 + (i as u32 % 9) } else { MID + 1 + (i as u32 % 10) };
                let id = self.env.place_order(a, bid, 1 + (i as u32 % 3), 1, Some(price))?;
                readers.push((false, id));
                created.push(id);
            }
        }
        // orders of the previous step that were not cancelled now are cancelled later
        let rest: Vec<(usize, usize)> = self.prev[pc..].to_vec();
        self.env.step(rng);
        let mut pos = vec![usize::MAX; n];
        let mut seen = vec![false; n];
        for (i, (cancel, id)) in readers.iter().enumerate() {
            let o = self.env.order(*id);
            let t = if *cancel {
                if o.status != St::Cancelled {
                    return Err(format!("order {:?} cancelled by instruction {} is {:?}", id, i, o.status));
                }
                o.end_time
            } else {
                if o.status != St::Active {
                    return Err(format!("new order {:?} is {:?} after the step", id, o.status));
                }
                o.arr_time
            };
            let q = t.wrapping_sub(start);
            if q >= n as u64 || seen[q as usize] {
                return Err(format!("processed positions are not a permutation of 0..{}: instruction {} at time {} (start {})", n, i, t, start));
            }
            seen[q as usize] = true;
            pos[i] = q as usize;
        }
        self.prev = rest;
        self.prev.extend(created);
        Ok(pos)
    }
}

fn layout_from(seed: &mut u64, n: usize, mixed: bool) -> Vec<u8> {
    (0..n).map(|_| if mixed { (splitmix(seed) % 4) as u8 } else { (splitmix(seed) % 2) as u8 }).collect()
}

fn perm_index(pos: &[usize]) -> usize {
    // Lehmer code
    let n = pos.len();
    let mut idx = 0;
    for i in 0..n {
        let smaller = (i + 1..n).filter(|&j| pos[j] < pos[i]).count();
        idx = idx * (n - i) + smaller;
    }
    idx
}

fn bernstein_t(n_samples: f64, p: f64, l: f64) -> f64 {
    // smallest t with t^2 >= 2 L (N p (1-p) + t/3)
    let a = l / 3.0;
    a + (a * a + 2.0 * l * n_samples * p * (1.0 - p)).sqrt()
}

/// number of steps per campaign whose window tuples are kept for the repeat statistic (bounds memory)
const COLLISION_SAMPLES: u64 = 2_000_000;

/// windows (suffix?, k) of processed positions whose repeat statistic has power: k <= 10 (6 bits per
/// instruction index fit a u64), K = n!/(n-k)! large enough that a uniform shuffle is expected to repeat
/// fewer than 8 times in `samples` steps
fn collision_windows(n: usize, samples: u64) -> Vec<(bool, usize)> {
    let mut v = vec![];
    let ns = samples as f64;
    for k in 3..=n.min(10) {
        let kk: f64 = (0..k).map(|j| (n - j) as f64).product();
        if ns * (ns - 1.0) / (2.0 * kk) < 8.0 {
            v.push((true, k));
            if k < n {
                v.push((false, k));
            }
        }
    }
    v
}

/// smallest d > mu with exp(-mu) (e mu / d)^d <= a
fn repeat_limit(mu: f64, a: f64) -> u64 {
    let mut d = (mu.ceil() as u64).max(1) + 1;
    loop {
        let df = d as f64;
        let log_p = -mu + df * (1.0 + (mu.max(1e-300) / df).ln());
        if log_p <= a.ln() {
            return d;
        }
        d += 1;
    }
}

pub fn outcome(_id: &'static str, c: &ShuffleCase) -> Outcome {
    match guarded("C15", || run(c)) {
        Ok((classes, nontrivial, res)) => Outcome { nontrivial: res.is_ok() && nontrivial, classes, result: res.err() },
        Err(f) => Outcome { nontrivial: false, classes: vec![("panics", 1)], result: Some(f) },
    }
}

fn run(c: &ShuffleCase) -> (Vec<(&'static str, u64)>, bool, Result<(), Failure>) {
    match c {
        ShuffleCase::Det { n, market, seed, layout_a, layout_b, trading, step_size } => {
            let n = *n;
            let la: Vec<u8> = layout_a.iter().cloned().chain(std::iter::repeat(0)).take(n).collect();
            let lb: Vec<u8> = layout_b.iter().cloned().chain(std::iter::repeat(1)).take(n).collect();
            let go = |l: &[u8]| {
                let mut r = Xoroshiro128StarStar::seed_from_u64(*seed);
                measured_step(n, *market, *trading, *step_size, l, &mut r)
            };
            let kinds = {
                let mut k = la.clone();
                k.sort_unstable();
                k.dedup();
                k.len()
            };
            let classes = vec![("det_cases", 1u64), ("det_mixed_kind_batches", (kinds >= 2) as u64), ("det_cases_with_more_instructions_than_time_units", ((n as u64) > *step_size) as u64)];
            let (a1, a2, b) = match (go(&la), go(&la), go(&lb)) {
                (Ok(x), Ok(y), Ok(z)) => (x, y, z),
                (Err(e), _, _) | (_, Err(e), _) | (_, _, Err(e)) => return (classes, false, Err(Failure::new("C15", "C15 processed positions are not a permutation", e))),
            };
            if a1 != a2 {
                return (classes, false, Err(Failure::new("C15", "C15 same generator state gave different permutations", format!("{:?} vs {:?}", a1, a2))));
            }
            // positions that both batches reveal must coincide (a same-batch cancel processed before its
            // placement reveals nothing)
            if a1.iter().zip(b.iter()).any(|(x, y)| x.is_some() && y.is_some() && x != y) {
                return (classes, false, Err(Failure::new("C15", "C15 processing order depends on what the instructions are", format!("layout {:?} -> {:?}; layout {:?} -> {:?}", la, a1, lb, b))));
            }
            let mut classes = classes;
            classes.push(("det_batches_with_instruction_for_order_of_same_batch", (la.contains(&4) || lb.contains(&4)) as u64));
            (classes, kinds >= 2 && n >= 2, Ok(()))
        }
        ShuffleCase::Uniform { n, market, stream, steps, seed, alpha_exp, cases_in_run, trading, long_lived, step_size } => {
            let n = *n;
            let mut aged = if *long_lived { Some(LongLived::new(*market)) } else { None };
            let small = n <= 6;
            let nf = if small { (1..=n).product::<usize>() } else { 0 };
            let mut perm_counts = vec![0u64; if small { nf } else { 0 }];
            let mut cell = vec![0u64; n * n];
            let mut pair = vec![0u64; n * n];
            let mut s = *seed ^ ((n as u64) << 32) ^ ((*market as u64) << 48) ^ ((*stream as u64) << 49) ^ ((!*trading as u64) << 50);
            let mut stream_rng = Xoroshiro128StarStar::seed_from_u64(splitmix(&mut s));
            let mut mixed_steps = 0u64;
            // repeat (collision) statistic: for windows of the first / last k processed positions the tuple of
            // instructions processed there is recorded for the first COLLISION_SAMPLES steps
            let windows: Vec<(bool, usize)> = collision_windows(n, (*steps).min(COLLISION_SAMPLES));
            let mut tuples: Vec<Vec<u64>> = windows.iter().map(|_| Vec::with_capacity((*steps).min(COLLISION_SAMPLES) as usize)).collect();
            let mut at = vec![0usize; n];
            for step_no in 0..*steps {
                let layout = layout_from(&mut s, n, true);
                if layout.iter().any(|k| *k != layout[0]) {
                    mixed_steps += 1;
                }
                let step_seed = splitmix(&mut s);
                let pos = if let Some(ll) = aged.as_mut() {
                    mixed_steps += 1;
                    if *stream {
                        ll.step(n, &mut s, &mut stream_rng).map(|p| p.into_iter().map(Some).collect())
                    } else {
                        let mut r = Xoroshiro128StarStar::seed_from_u64(step_seed);
                        ll.step(n, &mut s, &mut r).map(|p| p.into_iter().map(Some).collect())
                    }
                } else if *stream {
                    measured_step(n, *market, *trading, *step_size, &layout, &mut stream_rng)
                } else {
                    let mut r = Xoroshiro128StarStar::seed_from_u64(step_seed);
                    measured_step(n, *market, *trading, *step_size, &layout, &mut r)
                };
                let pos: Vec<usize> = match pos {
                    Ok(p) => p.into_iter().map(|x| x.expect("harness: campaign layouts reveal every position")).collect(),
                    Err(e) => return (vec![], false, Err(Failure::new("C15", "C15 processed positions are not a permutation", e))),
                };
                if small {
                    perm_counts[perm_index(&pos)] += 1;
                }
                if step_no < COLLISION_SAMPLES && !windows.is_empty() {
                    for i in 0..n {
                        at[pos[i]] = i;
                    }
                    for (w, (suffix, k)) in windows.iter().enumerate() {
                        let mut code = 0u64;
                        for j in 0..*k {
                            let q = if *suffix { n - 1 - j } else { j };
                            code = (code << 6) | at[q] as u64;
                        }
                        tuples[w].push(code);
                    }
                }
                for i in 0..n {
                    cell[i * n + pos[i]] += 1;
                    for j in (i + 1)..n {
                        if pos[i] < pos[j] {
                            pair[i * n + j] += 1;
                        }
                    }
                }
            }
            // exact concentration bound with a union bound over all cells of all cases of the run
            let k_cells = (if small { nf } else { 0 } + n * n + n * (n - 1) / 2) as f64;
            let alpha = 10f64.powi(-(*alpha_exp as i32)) / (*cases_in_run as f64);
            let l = (2.0 * k_cells / (alpha / 2.0)).ln();
            let nn = *steps as f64;
            let mut worst = 0.0f64;
            let mut bad: Option<String> = None;
            let mut test = |what: String, count: u64, p: f64| {
                let t = bernstein_t(nn, p, l);
                let dev = (count as f64 - nn * p).abs();
                let ratio = dev / t;
                if ratio > worst {
                    worst = ratio;
                }
                if dev > t && bad.is_none() {
                    bad = Some(format!("{}: observed {} of {} steps, expected {:.1} +- {:.1} (Bernstein, alpha {:e})", what, count, nn, nn * p, t, alpha));
                }
            };
            if small {
                for (k, c) in perm_counts.iter().enumerate() {
                    test(format!("permutation #{} of {} items", k, n), *c, 1.0 / nf as f64);
                }
            }
            for i in 0..n {
                for p in 0..n {
                    test(format!("instruction {} processed at position {} (batch of {})", i, p, n), cell[i * n + p], 1.0 / n as f64);
                }
                for j in (i + 1)..n {
                    test(format!("instruction {} processed before instruction {} (batch of {})", i, j, n), pair[i * n + j], 0.5);
                }
            }
            // repeats: under a uniform shuffle the tuple of instructions at k fixed positions takes each of
            // K = n!/(n-k)! values with equal probability, so the j-th step repeats an earlier step's tuple with
            // probability <= (j-1)/K whatever happened before; the number D of such steps is stochastically
            // dominated by a sum of independent Bernoulli variables with mean mu = N(N-1)/(2K), hence
            // P(D >= d) <= exp(-mu) (e mu / d)^d for d > mu (Chernoff). The alpha of the campaign is split evenly
            // between the cell tests above and the window tests.
            let mut windows_tested = 0u64;
            let mut repeats_seen = 0u64;
            for (w, (suffix, k)) in windows.iter().enumerate() {
                let v = &mut tuples[w];
                let ns = v.len() as f64;
                v.sort_unstable();
                let mut d = 0u64;
                for i in 1..v.len() {
                    if v[i] == v[i - 1] {
                        d += 1;
                    }
                }
                let kk: f64 = (0..*k).map(|j| (n - j) as f64).product();
                let mu = ns * (ns - 1.0) / (2.0 * kk);
                let a_w = alpha / (2.0 * windows.len() as f64);
                let limit = repeat_limit(mu, a_w);
                windows_tested += 1;
                repeats_seen += d;
                if d >= limit && bad.is_none() {
                    bad = Some(format!(
                        "{} of the first {} steps repeated an earlier step's processing order at the {} {} positions of a batch of {} (K = {:.3e} equally likely outcomes, expected repeats {:.3}, a uniform shuffle gives >= {} with probability < {:e})",
                        d, ns, if *suffix { "last" } else { "first" }, k, n, kk, mu, limit, a_w
                    ));
                }
            }
            let distinct = perm_counts.iter().filter(|c| **c > 0).count() as u64;
            let classes = vec![
                ("uniformity_campaigns", 1u64),
                ("seeded_steps", *steps),
                ("steps_with_mixed_instruction_kinds", mixed_steps),
                ("cells_tested", k_cells as u64),
                ("repeat_windows_tested", windows_tested),
                ("repeats_observed_in_windows", repeats_seen),
                ("distinct_permutations_observed_n_le_6", distinct),
                ("sum_over_campaigns_of_worst_deviation_in_permille_of_bound", (worst * 1000.0) as u64),
            ];
            match bad {
                Some(m) => (classes, false, Err(Failure::new("C15", "C15 processing order is not uniformly distributed", m))),
                None => (classes, mixed_steps > 0, Ok(())),
            }
        }
    }
}

pub const SIZES: [usize; 9] = [2, 3, 4, 5, 6, 8, 16, 32, 64];

pub fn parts(tier: Tier) -> (Vec<Part<Case>>, String) {
    let steps: u64 = crate::engine::scaled(tier.pick(400_000, 6_000_000));
    let seed = crate::engine::verif_seed();
    const OFF_SIZES: [usize; 3] = [3, 8, 32];
    let n_on = SIZES.len() * 4;
    let n_off = OFF_SIZES.len() * 2;
    // every batch size 2..=64 once more (Env, generator freshly seeded per step): a bias that exists for one
    // particular size only must not fall between the sizes of the main grid
    let all_sizes: Vec<usize> = (2..=64usize).rev().collect();
    let n_all = all_sizes.len();
    let steps_all: u64 = crate::engine::scaled(tier.pick(800_000, 6_000_000));
    // long-lived environments: one environment (and generator stream) for a whole campaign
    const LONG_SIZES: [usize; 3] = [6, 24, 64];
    let n_long = LONG_SIZES.len() * 2;
    let steps_long: u64 = crate::engine::scaled(tier.pick(150_000, 1_500_000));
    // overfull steps (more instructions than time units): batch sizes 3 and 8 in steps of 2 time units
    const OVER_SIZES: [usize; 2] = [3, 8];
    let n_over = OVER_SIZES.len() * 2;
    let total = (n_on + n_off + n_all + n_long + n_over) as u64;
    let uniform = Part {
        name: "uniformity-campaigns".to_string(),
        kind: PartKind::Exhaustive {
            total,
            // largest batches first so that the long campaigns start early
            decode: Box::new(move |i| {
                let k = i as usize;
                if k < n_on {
                    let n = SIZES[SIZES.len() - 1 - k / 4];
                    let market = k % 2 == 1;
                    let stream = (k / 2) % 2 == 1;
                    Some(Case::Shuffle(ShuffleCase::Uniform { n, market, stream, steps, seed, alpha_exp: 9, cases_in_run: total as u32, trading: true, long_lived: false, step_size: 1_000 }))
                } else if k < n_on + n_off {
                    let j = k - n_on;
                    Some(Case::Shuffle(ShuffleCase::Uniform { n: OFF_SIZES[j / 2], market: j % 2 == 1, stream: false, steps, seed, alpha_exp: 9, cases_in_run: total as u32, trading: false, long_lived: false, step_size: 1_000 }))
                } else if k >= n_on + n_off + n_all + n_long {
                    let j = k - n_on - n_off - n_all - n_long;
                    Some(Case::Shuffle(ShuffleCase::Uniform { n: OVER_SIZES[j / 2], market: j % 2 == 1, stream: false, steps, seed: seed ^ 0x0F, alpha_exp: 9, cases_in_run: total as u32, trading: true, long_lived: false, step_size: 2 }))
                } else if k >= n_on + n_off + n_all {
                    let j = k - n_on - n_off - n_all;
                    Some(Case::Shuffle(ShuffleCase::Uniform { n: LONG_SIZES[j / 2], market: j % 2 == 1, stream: true, steps: steps_long, seed: seed ^ 0x10E6, alpha_exp: 9, cases_in_run: total as u32, trading: true, long_lived: true, step_size: 1_000 }))
                } else {
                    let j = k - n_on - n_off;
                    Some(Case::Shuffle(ShuffleCase::Uniform { n: all_sizes[j], market: j % 2 == 1, stream: false, steps: steps_all, seed: seed ^ 0xA11, alpha_exp: 9, cases_in_run: total as u32, trading: true, long_lived: true, step_size: 1_000 }))
                }
            }),
            description: format!("one campaign of {} seeded steps for each batch size in {:?} x environment in {{Env, MarketEnv<2>}} x generator in {{freshly seeded per step, one continuing stream}} with trading enabled, plus batch sizes {:?} x both environments during a no-trading period, plus one campaign of {} steps for EVERY batch size 2..=64 (Env and MarketEnv<2> alternating, fresh seed per step, all steps on long-lived environments, each used for 20 000 consecutive steps); plus campaigns of {} steps on long-lived environments (20 000 consecutive steps each, one continuing generator stream) for batch sizes {:?} x both environments (each step cancels the previous step's orders and places new ones); plus batch sizes {:?} x both environments in steps of 2 time units (more instructions than time units); repeat statistic over position windows in every campaign", steps, SIZES, OFF_SIZES, steps_all, steps_long, LONG_SIZES, OVER_SIZES),
        },
    };
    let det = Part {
        name: "determinism-and-content-independence".to_string(),
        kind: PartKind::Random {
            make: Box::new(|| {
                (prop_oneof![4 => 2usize..=8, 1 => Just(16usize), 1 => Just(32usize), 1 => Just(64usize)], any::<bool>(), any::<u64>())
                    .prop_flat_map(|(n, market, seed)| {
                        (proptest::collection::vec(0u8..7, n), proptest::collection::vec(0u8..7, n), 0u8..5, prop_oneof![5 => Just(1_000u64), 1 => Just(n as u64), 1 => Just(n as u64 - 1), 1 => 1u64..=(n as u64 / 2).max(1)])
                            .prop_map(move |(layout_a, layout_b, t, step_size)| Case::Shuffle(ShuffleCase::Det { n, market, seed, layout_a, layout_b, trading: t != 0, step_size }))
                    })
                    .boxed()
            }),
            cases: tier.pick(40_000, 600_000),
        },
    };
    (
        vec![det, uniform],
        "Two kinds of case. (1) determinism / content independence: one generator state, one batch size, two generated batches of different content and kind layout (new asks, new bids, cancels of resting orders, crossing re-prices, cancels of an order placed earlier in the same batch, cancels of an order that was already finished, modifications to an off-grid price) on fresh environments: the map submission index -> processed position must be identical for both batches wherever both reveal it (a same-batch cancel processed before its placement leaves no timestamp) and for a repeated run (non-trivial: batch with >= 2 instruction kinds). (2) uniformity campaign: for one (batch size, Env or MarketEnv<2>, generator freshly seeded per step or one continuing stream) the processed positions of N seeded steps are recovered from arrival / end timestamps and the count of each of the n! permutations (n <= 6), each (instruction, position) cell and each ordered pair must lie within the Bernstein deviation for alpha = 1e-9 divided by the number of campaigns, with a union bound over all cells; in addition, for windows of the first / last k = 3..10 processed positions whose number of outcomes K = n!/(n-k)! is large, the number of steps that repeat an earlier step's tuple of instructions at those positions must stay below an exact Chernoff limit (a shuffle that derives several swap indices from one generator word has too few distinct outcomes in such a window although every position and pair table is flat); half of each campaign's alpha goes to the cell tests and half to the window tests (non-trivial: campaign with mixed instruction kinds). Every step also checks that the positions are a bijection of 0..n.".to_string(),
    )
}
