//! C20: derived agent sets update every member once, in declaration order, on the shared state.
//! The struct shapes are generated as source by `build.rs`; here each shape is exercised with
//! generated seeds, the derived `update` against the hand-written sequence of calls.

use super::Case;
use crate::dynbook::{order_rec, trade_rec};
use crate::engine::{guarded, Outcome, Part, PartKind, Tier};
use crate::model::{OrderRec, TradeRec};
use crate::ops::Failure;
use proptest::prelude::*;
use serde::{Deserialize, Serialize};
use std::cell::RefCell;

#[derive(Clone, Debug, PartialEq, Eq)]
pub struct LogRec {
    pub tag: u32,
    pub env_addr: usize,
    pub rng_addr: usize,
    pub draw: u64,
}

thread_local! {
    static LOG: RefCell<Vec<LogRec>> = RefCell::new(Vec::new());
}

pub fn log_push(r: LogRec) {
    LOG.with(|l| l.borrow_mut().push(r));
}
pub fn log_take() -> Vec<LogRec> {
    LOG.with(|l| std::mem::take(&mut *l.borrow_mut()))
}

pub struct ShapeRun {
    pub logs: Vec<Vec<LogRec>>,
    pub orders: Vec<Vec<OrderRec>>,
    pub trades: Vec<Vec<TradeRec>>,
    pub tags: u32,
    pub next_draw: u64,
}

pub mod probes_single {
    use super::{log_push, LogRec};
    use bourse_book::types::Side;
    use bourse_de::agents::{Agent, RandomAgents};
    use bourse_de::Env;
    use rand::RngCore;

    pub struct ProbeA {
        tag: u32,
    }
    pub struct ProbeB {
        tag: u32,
    }
    impl ProbeA {
        pub fn new(tag: &mut u32) -> Self {
            *tag += 1;
            Self { tag: *tag - 1 }
        }
    }
    impl ProbeB {
        pub fn new(tag: &mut u32) -> Self {
            *tag += 1;
            Self { tag: *tag - 1 }
        }
    }
    /// a generic agent: the type argument only exercises the derive macro's handling of the field's type tokens
    pub struct ProbeG<T: ?Sized> {
        tag: u32,
        _p: std::marker::PhantomData<T>,
    }
    impl<T: ?Sized> ProbeG<T> {
        pub fn new(tag: &mut u32) -> Self {
            *tag += 1;
            Self { tag: *tag - 1, _p: std::marker::PhantomData }
        }
    }
    pub trait Same {
        type Out;
    }
    impl Same for ProbeA {
        type Out = ProbeA;
    }
    /// a zero-sized, stateless agent
    pub struct ProbeZ;
    impl ProbeZ {
        pub fn new(tag: &mut u32) -> Self {
            *tag += 1;
            ProbeZ
        }
    }
    impl Agent for ProbeZ {
        fn update<R: RngCore>(&mut self, env: &mut Env, rng: &mut R) {
            let d = rng.next_u64();
            log_push(LogRec { tag: 0xFFFF, env_addr: env as *mut Env as usize, rng_addr: rng as *mut R as *mut u8 as usize, draw: d });
            env.place_order(Side::Ask, 1 + (d % 2) as u32, 0xFFFF, Some(140 + (d % 50) as u32)).unwrap();
        }
    }
    impl<T: ?Sized> Agent for ProbeG<T> {
        fn update<R: RngCore>(&mut self, env: &mut Env, rng: &mut R) {
            let d = rng.next_u64();
            log_push(LogRec { tag: self.tag, env_addr: env as *mut Env as usize, rng_addr: rng as *mut R as *mut u8 as usize, draw: d });
            env.place_order(Side::Bid, 1 + (d % 3) as u32, self.tag, Some(90 + (d % 50) as u32)).unwrap();
        }
    }
    impl Agent for ProbeA {
        fn update<R: RngCore>(&mut self, env: &mut Env, rng: &mut R) {
            let d = rng.next_u64();
            log_push(LogRec { tag: self.tag, env_addr: env as *mut Env as usize, rng_addr: rng as *mut R as *mut u8 as usize, draw: d });
            env.place_order(Side::Bid, 1 + (d % 5) as u32, self.tag, Some(100 + (d % 50) as u32)).unwrap();
        }
    }
    impl Agent for ProbeB {
        fn update<R: RngCore>(&mut self, env: &mut Env, rng: &mut R) {
            let d = rng.next_u64();
            log_push(LogRec { tag: self.tag, env_addr: env as *mut Env as usize, rng_addr: rng as *mut R as *mut u8 as usize, draw: d });
            env.place_order(Side::Ask, 1 + (d % 7) as u32, self.tag, Some(130 + (d % 50) as u32)).unwrap();
        }
    }
    pub type Builtin = RandomAgents;
    pub fn new_builtin(tag: &mut u32) -> Builtin {
        *tag += 1;
        RandomAgents::new(2, (100, 180), (1, 5), 1, 1.0)
    }
    pub fn builtin_update<R: RngCore>(b: &mut Builtin, env: &mut Env, rng: &mut R) {
        Agent::update(b, env, rng)
    }
}

pub mod probes_multi {
    use super::{log_push, LogRec};
    use bourse_book::types::Side;
    use bourse_de::agents::{MarketAgent, RandomMarketAgents};
    use bourse_de::MarketEnv;
    use rand::RngCore;

    pub struct ProbeA {
        tag: u32,
    }
    pub struct ProbeB {
        tag: u32,
    }
    impl ProbeA {
        pub fn new(tag: &mut u32) -> Self {
            *tag += 1;
            Self { tag: *tag - 1 }
        }
    }
    impl ProbeB {
        pub fn new(tag: &mut u32) -> Self {
            *tag += 1;
            Self { tag: *tag - 1 }
        }
    }
    /// a generic agent: the type argument only exercises the derive macro's handling of the field's type tokens
    pub struct ProbeG<T: ?Sized> {
        tag: u32,
        _p: std::marker::PhantomData<T>,
    }
    impl<T: ?Sized> ProbeG<T> {
        pub fn new(tag: &mut u32) -> Self {
            *tag += 1;
            Self { tag: *tag - 1, _p: std::marker::PhantomData }
        }
    }
    pub trait Same {
        type Out;
    }
    impl Same for ProbeA {
        type Out = ProbeA;
    }
    /// a zero-sized, stateless agent
    pub struct ProbeZ;
    impl ProbeZ {
        pub fn new(tag: &mut u32) -> Self {
            *tag += 1;
            ProbeZ
        }
    }
    impl MarketAgent for ProbeZ {
        fn update<R: RngCore, const M: usize, const N: usize>(&mut self, env: &mut MarketEnv<M, N>, rng: &mut R) {
            let d = rng.next_u64();
            log_push(LogRec { tag: 0xFFFF, env_addr: env as *mut MarketEnv<M, N> as usize, rng_addr: rng as *mut R as *mut u8 as usize, draw: d });
            env.place_order((d >> 20) as usize % M, Side::Ask, 1 + (d % 2) as u32, 0xFFFF, Some(140 + (d % 50) as u32)).unwrap();
        }
    }
    impl<T: ?Sized> MarketAgent for ProbeG<T> {
        fn update<R: RngCore, const M: usize, const N: usize>(&mut self, env: &mut MarketEnv<M, N>, rng: &mut R) {
            let d = rng.next_u64();
            log_push(LogRec { tag: self.tag, env_addr: env as *mut MarketEnv<M, N> as usize, rng_addr: rng as *mut R as *mut u8 as usize, draw: d });
            env.place_order((d >> 20) as usize % M, Side::Bid, 1 + (d % 3) as u32, self.tag, Some(90 + (d % 50) as u32)).unwrap();
        }
    }
    impl MarketAgent for ProbeA {
        fn update<R: RngCore, const M: usize, const N: usize>(&mut self, env: &mut MarketEnv<M, N>, rng: &mut R) {
            let d = rng.next_u64();
            log_push(LogRec { tag: self.tag, env_addr: env as *mut MarketEnv<M, N> as usize, rng_addr: rng as *mut R as *mut u8 as usize, draw: d });
            env.place_order((d >> 20) as usize % M, Side::Bid, 1 + (d % 5) as u32, self.tag, Some(100 + (d % 50) as u32)).unwrap();
        }
    }
    impl MarketAgent for ProbeB {
        fn update<R: RngCore, const M: usize, const N: usize>(&mut self, env: &mut MarketEnv<M, N>, rng: &mut R) {
            let d = rng.next_u64();
            log_push(LogRec { tag: self.tag, env_addr: env as *mut MarketEnv<M, N> as usize, rng_addr: rng as *mut R as *mut u8 as usize, draw: d });
            env.place_order((d >> 20) as usize % M, Side::Ask, 1 + (d % 7) as u32, self.tag, Some(130 + (d % 50) as u32)).unwrap();
        }
    }
    pub type Builtin = RandomMarketAgents;
    pub fn new_builtin(tag: &mut u32) -> Builtin {
        *tag += 1;
        RandomMarketAgents::new((*tag as usize) % 2, 2, (100, 180), (1, 5), 1, 1.0)
    }
    pub fn builtin_update<R: RngCore, const M: usize, const N: usize>(b: &mut Builtin, env: &mut MarketEnv<M, N>, rng: &mut R) {
        MarketAgent::update(b, env, rng)
    }
}

#[macro_export]
macro_rules! drive_single {
    ($S:ident, $derived:expr, $seed:expr, $calls:expr) => {{
        use rand::{RngCore as _, SeedableRng as _};
        let mut tag = 0u32;
        let mut s = $S::build(&mut tag);
        let mut env = Env::new(0, 1, 1000, true);
        let mut rng = rand_xoshiro::Xoroshiro128StarStar::seed_from_u64($seed);
        let mut logs = vec![];
        for _ in 0..$calls {
            let _ = $crate::checks::c20::log_take();
            if $derived {
                AgentSet::update(&mut s, &mut env, &mut rng)
            } else {
                s.manual(&mut env, &mut rng)
            }
            logs.push($crate::checks::c20::log_take());
            env.step(&mut rng);
        }
        $crate::checks::c20::ShapeRun {
            logs,
            orders: vec![env.get_orders().into_iter().map($crate::dynbook::order_rec).collect()],
            trades: vec![env.get_trades().iter().map($crate::dynbook::trade_rec).collect()],
            tags: tag,
            next_draw: rng.next_u64(),
        }
    }};
}

#[macro_export]
macro_rules! drive_multi {
    ($S:ident, $derived:expr, $seed:expr, $calls:expr) => {{
        use rand::{RngCore as _, SeedableRng as _};
        let mut tag = 0u32;
        let mut s = $S::build(&mut tag);
        let mut env = MarketEnv::<2, 10>::new(0, [1, 1], 1000, true);
        let mut rng = rand_xoshiro::Xoroshiro128StarStar::seed_from_u64($seed);
        let mut logs = vec![];
        for _ in 0..$calls {
            let _ = $crate::checks::c20::log_take();
            if $derived {
                MarketAgentSet::update(&mut s, &mut env, &mut rng)
            } else {
                s.manual(&mut env, &mut rng)
            }
            logs.push($crate::checks::c20::log_take());
            env.step(&mut rng);
        }
        $crate::checks::c20::ShapeRun {
            logs,
            orders: (0..2).map(|a| env.get_orders(a).into_iter().map($crate::dynbook::order_rec).collect()).collect(),
            trades: (0..2).map(|a| env.get_trades(a).iter().map($crate::dynbook::trade_rec).collect()).collect(),
            tags: tag,
            next_draw: rng.next_u64(),
        }
    }};
}
#[allow(unused_imports)]
pub(crate) use {drive_multi, drive_single};

include!(concat!(env!("OUT_DIR"), "/shapes.rs"));

/// Hand-written shapes whose meaning depends on WHICH TRAITS ARE IN SCOPE where the struct is declared: the
/// documented expansion is `self.field.update(env, rng)`, a method call resolved at the derive site. Here only
/// the set trait is imported, and one member type implements the agent trait itself while dereferencing to a
/// derived set: with the documented expansion the member is updated through the set it dereferences to (the
/// agent trait is not in scope), exactly as the hand-written sequence in the same module does.
#[cfg(feature = "shapes_b")]
pub mod scoped_single {
    use super::probes_single::{ProbeA, ProbeB};
    use bourse_de::agents::AgentSet; // deliberately NOT `Agent`
    use bourse_de::Env;
    use rand::RngCore;
    pub mod inner {
        use super::{ProbeA, ProbeB};
        use bourse_de::agents::{Agent, AgentSet};
        #[derive(AgentSet)]
        pub struct Pair {
            pub a: ProbeA,
            pub b: ProbeB,
        }
    }
    pub struct Wrapper {
        own: ProbeB,
        set: inner::Pair,
    }
    impl std::ops::Deref for Wrapper {
        type Target = inner::Pair;
        fn deref(&self) -> &inner::Pair {
            &self.set
        }
    }
    impl std::ops::DerefMut for Wrapper {
        fn deref_mut(&mut self) -> &mut inner::Pair {
            &mut self.set
        }
    }
    impl bourse_de::agents::Agent for Wrapper {
        fn update<R: RngCore>(&mut self, env: &mut Env, rng: &mut R) {
            bourse_de::agents::Agent::update(&mut self.own, env, rng)
        }
    }
    #[derive(AgentSet)]
    pub struct Outer {
        pub first: inner::Pair,
        pub wrapped: Wrapper,
        pub last: inner::Pair,
    }
    impl Outer {
        pub fn build(tag: &mut u32) -> Self {
            let pair = |tag: &mut u32| inner::Pair { a: ProbeA::new(tag), b: ProbeB::new(tag) };
            Self { first: pair(tag), wrapped: Wrapper { own: ProbeB::new(tag), set: pair(tag) }, last: pair(tag) }
        }
        pub fn manual<R: RngCore>(&mut self, env: &mut Env, rng: &mut R) {
            self.first.update(env, rng);
            self.wrapped.update(env, rng);
            self.last.update(env, rng);
        }
    }
    pub fn run(derived: bool, seed: u64, calls: usize) -> super::ShapeRun {
        super::drive_single!(Outer, derived, seed, calls)
    }
}

#[cfg(feature = "shapes_b")]
pub mod scoped_multi {
    use super::probes_multi::{ProbeA, ProbeB};
    use bourse_de::agents::MarketAgentSet; // deliberately NOT `MarketAgent`
    use bourse_de::MarketEnv;
    use rand::RngCore;
    pub mod inner {
        use super::{ProbeA, ProbeB};
        use bourse_de::agents::{MarketAgent, MarketAgentSet};
        #[derive(MarketAgentSet)]
        pub struct Pair {
            pub a: ProbeA,
            pub b: ProbeB,
        }
    }
    pub struct Wrapper {
        own: ProbeB,
        set: inner::Pair,
    }
    impl std::ops::Deref for Wrapper {
        type Target = inner::Pair;
        fn deref(&self) -> &inner::Pair {
            &self.set
        }
    }
    impl std::ops::DerefMut for Wrapper {
        fn deref_mut(&mut self) -> &mut inner::Pair {
            &mut self.set
        }
    }
    impl bourse_de::agents::MarketAgent for Wrapper {
        fn update<R: RngCore, const M: usize, const N: usize>(&mut self, env: &mut MarketEnv<M, N>, rng: &mut R) {
            bourse_de::agents::MarketAgent::update(&mut self.own, env, rng)
        }
    }
    #[derive(MarketAgentSet)]
    pub struct Outer {
        pub first: inner::Pair,
        pub wrapped: Wrapper,
        pub last: inner::Pair,
    }
    impl Outer {
        pub fn build(tag: &mut u32) -> Self {
            let pair = |tag: &mut u32| inner::Pair { a: ProbeA::new(tag), b: ProbeB::new(tag) };
            Self { first: pair(tag), wrapped: Wrapper { own: ProbeB::new(tag), set: pair(tag) }, last: pair(tag) }
        }
        pub fn manual<R: RngCore, const M: usize, const N: usize>(&mut self, env: &mut MarketEnv<M, N>, rng: &mut R) {
            self.first.update(env, rng);
            self.wrapped.update(env, rng);
            self.last.update(env, rng);
        }
    }
    pub fn run(derived: bool, seed: u64, calls: usize) -> super::ShapeRun {
        super::drive_multi!(Outer, derived, seed, calls)
    }
}

#[derive(Clone, Debug, PartialEq, Eq, Hash, Serialize, Deserialize)]
pub struct ShapeCase {
    pub market: bool,
    pub shape: usize,
    pub seed: u64,
    pub calls: u8,
    /// second family of shapes (modules single_b / multi_b): colliding struct names, members named by path
    #[serde(default)]
    pub second: bool,
    /// the hand-written scope-dependent shape (modules scoped_single / scoped_multi); `shape` is ignored
    #[serde(default)]
    pub scoped: bool,
}

pub fn outcome(c: &ShapeCase) -> Outcome {
    match guarded("C20", || run(c)) {
        Ok((classes, nontrivial, res)) => Outcome { nontrivial: res.is_ok() && nontrivial, classes, result: res.err() },
        Err(f) => Outcome { nontrivial: false, classes: vec![("panics", 1)], result: Some(f) },
    }
}

fn run(c: &ShapeCase) -> (Vec<(&'static str, u64)>, bool, Result<(), Failure>) {
    let calls = c.calls.clamp(1, 5) as usize;
    #[cfg(feature = "shapes_b")]
    if c.scoped {
        return run_scoped(c, calls);
    }
    let (n, info) = match (c.market, c.second) {
        (false, false) => (single::N_SHAPES, &single::INFO[..]),
        (true, false) => (multi::N_SHAPES, &multi::INFO[..]),
        (false, true) => (single_b::N_SHAPES, &single_b::INFO[..]),
        (true, true) => (multi_b::N_SHAPES, &multi_b::INFO[..]),
    };
    let idx = c.shape % n;
    let (fields, leaves, repeated, nested, builtin, sorted_names) = info[idx];
    let go = |derived: bool| match (c.market, c.second) {
        (false, false) => single::run_shape(idx, derived, c.seed, calls),
        (true, false) => multi::run_shape(idx, derived, c.seed, calls),
        (false, true) => single_b::run_shape(idx, derived, c.seed, calls),
        (true, true) => multi_b::run_shape(idx, derived, c.seed, calls),
    };
    let d = go(true);
    let m = go(false);
    let classes = vec![
        ("shape_runs", 1u64),
        ("shape_of_second_family_colliding_names_members_by_path", c.second as u64),
        ("shape_has_repeated_type", repeated as u64),
        ("shape_has_nested_set", nested as u64),
        ("shape_has_builtin_agent", builtin as u64),
        ("shape_field_names_not_in_lexicographic_order", (!sorted_names) as u64),
        ("shape_fields", fields as u64),
        ("member_updates_logged", d.logs.iter().map(|l| l.len() as u64).sum()),
    ];
    let nontrivial = fields >= 3 && (repeated || nested);
    let fail = |sig: &str, msg: String| Failure::new("C20", sig, format!("{} shape S{} ({} fields, {} member agents), seed {}: {}", if c.market { "MarketAgentSet" } else { "AgentSet" }, idx, fields, leaves, c.seed, msg));
    for (k, (ld, lm)) in d.logs.iter().zip(m.logs.iter()).enumerate() {
        let td: Vec<u32> = ld.iter().map(|r| r.tag).collect();
        let tm: Vec<u32> = lm.iter().map(|r| r.tag).collect();
        if td != tm {
            let sig = if td.len() != tm.len() {
                "C20 derived update does not call every member exactly once"
            } else {
                "C20 derived update calls members out of declaration order"
            };
            return (classes, nontrivial, Err(fail(sig, format!("call {}: derived updated members {:?}, hand-written sequence {:?}", k, td, tm))));
        }
        // (a zero-sized probe cannot carry its tag and logs 0xFFFF: left out of this self-check of the reference)
        let tagged: Vec<u32> = td.iter().cloned().filter(|t| *t != 0xFFFF).collect();
        if tagged.windows(2).any(|w| w[0] >= w[1]) {
            return (classes, nontrivial, Err(fail("C20 hand-written reference is not in declaration order", format!("{:?}", td))));
        }
        if ld.iter().any(|r| r.env_addr != ld[0].env_addr) {
            return (classes, nontrivial, Err(fail("C20 members did not receive the same environment", format!("call {}", k))));
        }
        if ld.iter().any(|r| r.rng_addr != ld[0].rng_addr) {
            return (classes, nontrivial, Err(fail("C20 members did not receive the same generator", format!("call {}", k))));
        }
        let dd: Vec<u64> = ld.iter().map(|r| r.draw).collect();
        let dm: Vec<u64> = lm.iter().map(|r| r.draw).collect();
        if dd != dm {
            return (classes, nontrivial, Err(fail("C20 members' generator draws differ from the hand-written sequence", format!("call {}: derived {:?}, hand-written {:?}", k, dd, dm))));
        }
    }
    if d.orders != m.orders || d.trades != m.trades {
        return (classes, nontrivial, Err(fail("C20 final environment differs from the hand-written sequence", "orders or trades differ".to_string())));
    }
    if d.next_draw != m.next_draw {
        return (classes, nontrivial, Err(fail("C20 generator state after the calls differs from the hand-written sequence", format!("{} vs {}", d.next_draw, m.next_draw))));
    }
    let _ = (order_rec, trade_rec);
    (classes, nontrivial, Ok(()))
}

#[cfg(feature = "shapes_b")]
fn run_scoped(c: &ShapeCase, calls: usize) -> (Vec<(&'static str, u64)>, bool, Result<(), Failure>) {
    let go = |derived: bool| if c.market { scoped_multi::run(derived, c.seed, calls) } else { scoped_single::run(derived, c.seed, calls) };
    let (d, m) = (go(true), go(false));
    let classes = vec![("shape_runs", 1u64), ("scope_dependent_shape_runs", 1), ("member_updates_logged", d.logs.iter().map(|l| l.len() as u64).sum())];
    let tags = |r: &ShapeRun| -> Vec<Vec<u32>> { r.logs.iter().map(|l| l.iter().map(|x| x.tag).collect()).collect() };
    let draws = |r: &ShapeRun| -> Vec<Vec<u64>> { r.logs.iter().map(|l| l.iter().map(|x| x.draw).collect()).collect() };
    let res = if tags(&d) != tags(&m) || draws(&d) != draws(&m) || d.orders != m.orders || d.trades != m.trades || d.next_draw != m.next_draw {
        Err(Failure::new("C20", "C20 derived update is not interchangeable with the hand-written method calls in the same scope", format!("{} scope-dependent shape (only the set trait imported, a member implementing the agent trait and dereferencing to a set), seed {}: derived updated members {:?}, hand-written sequence {:?}", if c.market { "MarketAgentSet" } else { "AgentSet" }, c.seed, tags(&d), tags(&m))))
    } else {
        Ok(())
    };
    (classes, true, res)
}

pub fn parts(tier: Tier) -> (Vec<Part<Case>>, String) {
    let seeds: u64 = tier.pick(600, 4_000);
    let (ns, nm) = (single::N_SHAPES as u64, multi::N_SHAPES as u64);
    let (nsb, nmb) = (single_b::N_SHAPES as u64, multi_b::N_SHAPES as u64);
    let scoped: u64 = if cfg!(feature = "shapes_b") { 2 } else { 0 };
    let total = (ns + nm + nsb + nmb + scoped) * seeds;
    let all = Part {
        name: "all-shapes-x-seeds".to_string(),
        kind: PartKind::Exhaustive {
            total,
            decode: Box::new(move |i| {
                let s = i / seeds;
                let seed = (i % seeds).wrapping_mul(0x9E37_79B9_7F4A_7C15) ^ crate::engine::verif_seed();
                let (market, second, shape) = if s < ns {
                    (false, false, s as usize)
                } else if s < ns + nm {
                    (true, false, (s - ns) as usize)
                } else if s < ns + nm + nsb {
                    (false, true, (s - ns - nm) as usize)
                } else if s < ns + nm + nsb + nmb {
                    (true, true, (s - ns - nm - nsb) as usize)
                } else {
                    return Some(Case::Shape(ShapeCase { market: s - ns - nm - nsb - nmb == 1, shape: 0, seed, calls: 1 + (i % 5) as u8, second: false, scoped: true }));
                };
                Some(Case::Shape(ShapeCase { market, shape, seed, calls: 1 + (i % 5) as u8, second, scoped: false }))
            }),
            description: format!("every generated struct shape ({} deriving AgentSet, {} deriving MarketAgentSet; 1..8 named fields, random identifiers incl. raw identifiers and leading underscores in non-lexicographic order, member types from {{probe A, probe B, built-in random agents, an earlier derived set (nesting depth <= 2)}}) plus a second family in separate modules ({} + {} shapes) whose struct names collide with the first family's and whose members include sets of the first family named by path, plus two hand-written scope-dependent shapes (only the set trait imported; a member that implements the agent trait and dereferences to a set); x {} seeds x 1..5 consecutive update calls", ns, nm, nsb, nmb, seeds),
        },
    };
    let rnd = Part {
        name: "random-shape-seed".to_string(),
        kind: PartKind::Random { make: Box::new(|| (any::<bool>(), 0usize..4096, any::<u64>(), 1u8..=5, 0u8..4).prop_map(|(market, shape, seed, calls, fam)| Case::Shape(ShapeCase { market, shape, seed, calls, second: fam == 0, scoped: false })).boxed()), cases: tier.pick(20_000, 400_000) },
    };
    (
        vec![all, rnd],
        "A case is (struct shape, seed, number of consecutive update calls). The shape's derived update and its hand-written sequence of member calls (generated together with the struct) are run on fresh identical environments and generators; probe members log (tag, environment address, generator address, next u64 drawn) and place an order priced from the draw. The logs must agree call by call and draw by draw (every member exactly once, declaration order, one shared environment, one shared generator), and the final orders, trades and generator state must be equal. Non-trivial: shape with >= 3 fields including a repeated member type or a nested derived set.".to_string(),
    )
}
