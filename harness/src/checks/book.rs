//! Single-book properties: C01 C02 C03 C04 C05(a) C06 C07 C12 C13.
//! All share the operation language and interpreter (`ops.rs`); each selects its own generators,
//! oracles and non-triviality rule.

use super::Case;
use crate::engine::{guarded, Outcome, Part, PartKind, Tier};
use crate::gen::{book_case_strategy, core_op, core_sequence, core_sequence2, core_space, core_space2, exact_ref, GenCfg};
use crate::ops::{run_book_case, BookCase, Features, Op, Oracles};

/// level populations around 2^16: quick, thorough, and the single count used where the reference engine runs
static POP_Q: [u32; 3] = [65_535, 65_536, 65_537];
static POP_T: [u32; 6] = [65_535, 65_536, 65_537, 70_000, 131_071, 131_073];
static POP_M: [u32; 1] = [65_536];

/// numbers of orders resting on one side when a snapshot is taken
static SNAP_Q: [u32; 12] = [255, 256, 257, 1_023, 1_024, 1_025, 4_095, 4_096, 4_097, 65_535, 65_536, 65_537];
static SNAP_T: [u32; 16] = [255, 256, 257, 511, 512, 513, 1_023, 1_024, 1_025, 4_095, 4_096, 4_097, 65_535, 65_536, 65_537, 131_073];

pub const TICK: u32 = 2;
pub const MID: u32 = 50;

fn oracles_for(id: &str) -> Oracles {
    let mut o = Oracles::default();
    match id {
        "C01" => o.model = true,
        "C02" => o.views = true,
        "C03" => o.ledger = true,
        "C04" => o.lifecycle = true,
        "C05" => {
            o = Oracles::all();
            o.grid = false;
            o.trading = false;
        }
        "C06" => {
            o.model = true;
            o.modify = true;
        }
        "C07" => o.lockstep = true,
        "C12" => o.grid = true,
        "C13" => {
            o.model = true;
            o.trading = true;
        }
        _ => {}
    }
    o
}

fn nontrivial(id: &str, f: &Features) -> bool {
    match id {
        "C01" => f.priority_exercised,
        "C02" => f.multi_level_decrement,
        "C03" => f.trades >= 3 && f.orders_multi_fill >= 1,
        "C04" => f.redundant_terminal_nonempty,
        "C05" => f.ties_created > 0 && f.tie_touched,
        "C06" => f.modify_shared_level,
        "C07" => f.snapshot_deep_queue && f.snapshot_queue_traded,
        "C12" => f.offgrid_create_nonempty || f.offgrid_modify > 0,
        "C13" => f.crossed_while_off && f.aggressor_after_reenable,
        _ => false,
    }
}

pub fn rule(id: &str) -> String {
    let common = "A case is one operation history on one book (configuration + op list; order references are indices mapped onto the ids existing at execution), \
executed on the real OrderBook with the property's oracle run after EVERY operation and a final drain probe (market orders for both sides' whole volume). \
distinct_nontrivial = size of the set of hashes of non-trivial cases. ";
    let nt = match id {
        "C01" => "Non-trivial: the history contains at least one trade whose passive order was not the only resting order on its side (priority was exercised).",
        "C02" => "Non-trivial: the history passes through a state with >= 2 occupied price levels on one side that was reached by an operation that decremented an aggregate (partial fill, fill, cancel or modification).",
        "C03" => "Non-trivial: >= 3 trades and >= 1 order that traded more than once (reconciliation is not a single subtraction).",
        "C04" => "Non-trivial: at least one redundant request (second place / cancel or modify of a non-active order) hit an order in a terminal status while the book was non-empty.",
        "C05" => "Non-trivial: >= 2 orders rested simultaneously with identical (side, price, queue timestamp) and one of them was subsequently traded against, cancelled or modified.",
        "C06" => "Non-trivial: the modified (active) order shared its price level, before or after the modification, with at least one other resting order, so its queue position is observable.",
        "C07" => "Non-trivial: the snapshot was taken with >= 2 resting orders at one price on some side and the continuation traded through that level.",
        "C12" => "Non-trivial: an off-grid creation was requested against a non-empty book, or an off-grid modification was requested on an active order.",
        "C13" => "Non-trivial: the book was crossed at some point while trading was disabled and an aggressor traded after re-enabling.",
        _ => "",
    };
    format!("{}{}", common, nt)
}

pub fn outcome(id: &str, case: &BookCase) -> Outcome {
    let orc = oracles_for(id);
    match guarded(id, || run_book_case(case, orc)) {
        Ok((feat, res)) => {
            let mut classes = feat.classes();
            classes.push(("ops_executed", feat.ops_executed));
            classes.push(("ops_after_which_no_market_data_getter_was_called", feat.quiet_ops));
            classes.push(("ops_skipped_no_target", feat.ops_skipped));
            classes.push(("states_audited", feat.states_audited));
            classes.push(("trades", feat.trades));
            classes.push(("clock_discipline_advances_inserted", feat.inserted_advances));
            classes.push(("ties_created", feat.ties_created));
            classes.push(("reloads", feat.reloads));
            classes.push(("states_after_reload", feat.states_after_reload));
            classes.push(("crossed_states", feat.crossed_states));
            classes.push(("offgrid_creates", feat.offgrid_create));
            classes.push(("offgrid_modifies", feat.offgrid_modify));
            classes.push(("toggles", feat.toggles));
            classes.push(("modify_reduce", feat.modify_kinds[0]));
            classes.push(("modify_equal", feat.modify_kinds[1]));
            classes.push(("modify_increase", feat.modify_kinds[2]));
            classes.push(("modify_price_only", feat.modify_kinds[3]));
            classes.push(("modify_price_and_vol", feat.modify_kinds[4]));
            if id == "C04" {
                const NAMES: [[&str; 5]; 3] = [
                    ["place_on_New(n/a)", "place_on_Active", "place_on_Filled", "place_on_Cancelled", "place_on_Rejected"],
                    ["cancel_on_New", "cancel_on_Active(n/a)", "cancel_on_Filled", "cancel_on_Cancelled", "cancel_on_Rejected"],
                    ["modify_on_New", "modify_on_Active(n/a)", "modify_on_Filled", "modify_on_Cancelled", "modify_on_Rejected"],
                ];
                for k in 0..3 {
                    for s in 0..5 {
                        classes.push((NAMES[k][s], feat.redundant[k][s]));
                    }
                }
            }
            Outcome { nontrivial: res.is_ok() && nontrivial(id, &feat), classes, result: res.err() }
        }
        Err(f) => Outcome { nontrivial: false, classes: vec![("panics", 1)], result: Some(f) },
    }
}

fn case_of(ops: Vec<Op>, tie: bool, trading: bool, levels: usize) -> BookCase {
    BookCase { tick: TICK, levels, trading, t0: 0, tie, ops, drain: true, quiet: 0, bulk: vec![] }
}

fn random_part(name: &str, cfg: GenCfg, cases: u64) -> Part<Case> {
    use proptest::strategy::Strategy;
    Part { name: name.to_string(), kind: PartKind::Random { make: Box::new(move || book_case_strategy(cfg.clone()).prop_map(Case::Book).boxed()), cases } }
}

fn exhaustive_core(name: &str, depth: usize, advs: &'static [u64], tie: bool) -> Part<Case> {
    let total = core_space(depth, advs.len() as u64);
    Part {
        name: name.to_string(),
        kind: PartKind::Exhaustive {
            total,
            decode: Box::new(move |i| Some(Case::Book(case_of(core_sequence(i, depth, advs, TICK, MID), tie, true, 3)))),
            description: format!(
                "every sequence of exactly {} steps; step k = (clock advance in {:?}) x (16 create-and-place ops: 3 prices x 2 volumes x 2 sides limit + 2 volumes x 2 sides market, or cancel of id 0..k); tick {}, LEVELS 3; all prefixes are audited because the oracle runs after every op",
                depth, advs, TICK
            ),
        },
    }
}

/// the larger alphabet (5 prices x 3 volumes x 2 sides limit, 3 volumes x 2 sides market, cancels of every id)
fn exhaustive_core2(name: &str, depth: usize, advs: &'static [u64], tie: bool, levels: usize) -> Part<Case> {
    let total = core_space2(depth, advs.len() as u64);
    Part {
        name: name.to_string(),
        kind: PartKind::Exhaustive {
            total,
            decode: Box::new(move |i| Some(Case::Book(case_of(core_sequence2(i, depth, advs, TICK, MID), tie, true, levels)))),
            description: format!(
                "every sequence of exactly {} steps; step k = (clock advance in {:?}) x (36 create-and-place ops: 5 prices x 3 volumes (1, 2, 5) x 2 sides limit + 3 volumes (2, 3, 7) x 2 sides market, or cancel of id 0..k); tick {}, LEVELS {}",
                depth, advs, TICK, levels
            ),
        },
    }
}

/// Queue depths for the level-depth enumeration: every depth 1..=260 and the neighbourhoods of 384, 512, 768, 1024.
fn level_depths() -> Vec<usize> {
    let mut v: Vec<usize> = (1..=260).collect();
    v.extend([383, 384, 385, 511, 512, 513, 767, 768, 769, 1023, 1024, 1025]);
    v
}

/// One price level of EXACTLY `d` resting orders (volumes 1 / 2), `m` orders on the level behind it, and one
/// aggressor that consumes the first level in one go: a code path that treats queues in blocks (batched sweeps,
/// split_off, chunked iteration) is exercised at every block size, not only at the depths random histories reach.
fn exhaustive_level_depths(name: &str, tie: bool) -> Part<Case> {
    let depths: Vec<usize> = if tie { level_depths().into_iter().filter(|d| *d <= 200 || *d == 256 || *d == 512).collect() } else { level_depths() };
    let n_d = depths.len() as u64;
    const BEHIND: [usize; 3] = [0, 1, 3];
    const KINDS: u64 = 7;
    let total = n_d * 3 * 2 * KINDS;
    Part {
        name: name.to_string(),
        kind: PartKind::Exhaustive {
            total,
            decode: Box::new(move |i| {
                let kind = i % KINDS;
                let i = i / KINDS;
                let agg_bid = i % 2 == 0;
                let i = i / 2;
                let m = BEHIND[(i % 3) as usize];
                let d = depths[(i / 3) as usize];
                // passive side: asks above the mid when the aggressor buys, bids below it when it sells
                let (p1, p2, far) = if agg_bid { ((MID + 1) * TICK, (MID + 2) * TICK, (MID - 6) * TICK) } else { ((MID - 1) * TICK, (MID - 2) * TICK, (MID + 6) * TICK) };
                let mut ops = vec![];
                // id 0: a resting order of the aggressor's side far from the touch (re-priced in kind 5)
                ops.push(Op::CreatePlace { bid: agg_bid, vol: 1, trader: 5, price: Some(far) });
                let mut sum = 0u32;
                for k in 0..d {
                    let v = 1 + (k % 3 == 0) as u32;
                    sum += v;
                    // tie variant: the whole level is queued at ONE timestamp
                    if !tie {
                        ops.push(Op::Advance(1));
                    }
                    ops.push(Op::CreatePlace { bid: !agg_bid, vol: v, trader: (k % 4) as u32, price: Some(p1) });
                }
                for k in 0..m {
                    ops.push(Op::Advance(1));
                    ops.push(Op::CreatePlace { bid: !agg_bid, vol: 2 + k as u32, trader: 6, price: Some(p2) });
                }
                ops.push(Op::Advance(1));
                ops.push(match kind {
                    0 => Op::CreatePlace { bid: agg_bid, vol: sum, trader: 9, price: Some(p1) },
                    1 => Op::CreatePlace { bid: agg_bid, vol: sum + 3, trader: 9, price: Some(p1) },
                    2 => Op::CreatePlace { bid: agg_bid, vol: sum + 1, trader: 9, price: Some(p2) },
                    3 => Op::CreatePlace { bid: agg_bid, vol: sum, trader: 9, price: None },
                    4 => Op::CreatePlace { bid: agg_bid, vol: sum + 1, trader: 9, price: None },
                    5 => Op::Modify { r: exact_ref(0), price: Some(p1), vol: Some(sum) },
                    // exactly the level's volume, but priced through to the level behind
                    _ => Op::CreatePlace { bid: agg_bid, vol: sum, trader: 9, price: Some(p2) },
                });
                Some(Case::Book(case_of(ops, tie, true, 3)))
            }),
            description: format!(
                "{}every queue depth d in 1..=260 and around 384, 512, 768, 1024 ({} depths) x {{0, 1, 3}} orders on the level behind x aggressor side x 7 aggressors (limit for exactly the level's volume at its price and priced through to the next level, limit for more at the level's price, limit through to the next level, market for the level's volume, market for one more, resting order re-priced onto the level), then the drain probe",
                if tie { "(whole level queued at one timestamp; depths up to 200 and 256, 512) " } else { "" },
                n_d
            ),
        },
    }
}

/// One price level of EXACTLY n orders for n around 2^16 (order counts / level volumes that do not fit 16 bits),
/// built as an unobserved bulk prefix, with a second level behind it; then a cancel of one of them, a reduction of
/// another, and one of four aggressors that consumes the level in one go; then the drain probe.
fn exhaustive_level_populations(name: &str, tie: bool, ns: &'static [u32]) -> Part<Case> {
    const KINDS: u64 = 4;
    let total = ns.len() as u64 * 2 * KINDS;
    Part {
        name: name.to_string(),
        kind: PartKind::Exhaustive {
            total,
            decode: Box::new(move |i| {
                let kind = i % KINDS;
                let agg_bid = (i / KINDS) % 2 == 0;
                let n = ns[(i / KINDS / 2) as usize];
                let (p1, p2, far) = if agg_bid { ((MID + 1) * TICK, (MID + 2) * TICK, (MID - 6) * TICK) } else { ((MID - 1) * TICK, (MID - 2) * TICK, (MID + 6) * TICK) };
                // ids 0..n: the level; ids n, n+1: the level behind it
                let bulk = vec![(!agg_bid, n, p1, 1u32), (!agg_bid, 2, p2, 3u32)];
                let mut ops = vec![];
                ops.push(Op::Advance(1));
                // id n+2: a resting order of the aggressor's side far from the touch (re-priced in kind 3)
                ops.push(Op::CreatePlace { bid: agg_bid, vol: 1, trader: 5, price: Some(far) });
                ops.push(Op::Advance(1));
                ops.push(Op::Cancel(exact_ref(5)));
                ops.push(Op::Advance(1));
                // volumes are 1 each: nothing to reduce; a second order joins the level instead (count n again)
                ops.push(Op::CreatePlace { bid: !agg_bid, vol: 2, trader: 3, price: Some(p1) });
                let sum = n - 1 + 2;
                ops.push(Op::Advance(1));
                ops.push(match kind {
                    0 => Op::CreatePlace { bid: agg_bid, vol: sum, trader: 9, price: Some(p1) },
                    1 => Op::CreatePlace { bid: agg_bid, vol: sum + 1, trader: 9, price: None },
                    2 => Op::CreatePlace { bid: agg_bid, vol: sum + 1, trader: 9, price: Some(p2) },
                    _ => Op::Modify { r: exact_ref(n as usize + 2), price: Some(p1), vol: Some(sum - 3) },
                });
                let mut c = case_of(ops, tie, true, 3);
                c.bulk = bulk;
                Some(Case::Book(c))
            }),
            description: format!(
                "{}one price level of exactly n orders for n in {:?} (placed as an unobserved prefix) with two orders on the level behind it x passive side x 4 aggressors after one cancel and one further placement at the level (limit for exactly the level's volume, market for one more, limit through to the next level, resting order re-priced onto the level for all but 3 units), every view / record audited after each of these operations, then the drain probe",
                if tie { "(whole level queued at one timestamp) " } else { "" },
                ns
            ),
        },
    }
}

/// A snapshot taken with EXACTLY n orders resting on one side (spread over four price levels: n-6, 3, 2 and 1
/// orders, the single order on the level furthest from the touch) for n around 2^8, 2^10, 2^12 and 2^16, through each
/// serialisation route, followed by an operation on the far levels (cancel, reduction, a new order joining the
/// furthest level, or nothing) and the drain probe.
fn exhaustive_snapshot_populations(name: &str, ns: &'static [u32]) -> Part<Case> {
    const KINDS: u64 = 4;
    let total = ns.len() as u64 * 2 * KINDS;
    Part {
        name: name.to_string(),
        kind: PartKind::Exhaustive {
            total,
            decode: Box::new(move |i| {
                let kind = i % KINDS;
                let bid = (i / KINDS) % 2 == 0;
                let n = ns[(i / KINDS / 2) as usize];
                let lvl = |k: u32| if bid { (MID - 1 - k) * TICK } else { (MID + 1 + k) * TICK };
                // ids 0..n-6: touch level; n-6..n-3: second; n-3, n-2: third; n-1: furthest
                let bulk = vec![(bid, n - 6, lvl(0), 2u32), (bid, 3, lvl(1), 2), (bid, 2, lvl(2), 3), (bid, 1, lvl(3), 4)];
                let mut ops = vec![];
                ops.push(Op::Advance(1));
                ops.push(Op::CreatePlace { bid: !bid, vol: 2, trader: 5, price: Some(if bid { (MID + 2) * TICK } else { (MID - 2) * TICK }) });
                ops.push(Op::Reload(((kind + bid as u64) % 4) as u8));
                ops.push(Op::Advance(1));
                match kind {
                    0 => ops.push(Op::Cancel(exact_ref(n as usize - 1))),
                    1 => ops.push(Op::Modify { r: exact_ref(n as usize - 2), price: None, vol: Some(1) }),
                    2 => ops.push(Op::CreatePlace { bid, vol: 1, trader: 6, price: Some(lvl(3)) }),
                    _ => {}
                }
                let mut c = case_of(ops, false, true, 5);
                c.bulk = bulk;
                Some(Case::Book(c))
            }),
            description: format!("a snapshot taken with exactly n orders resting on one side for n in {:?} (n-6, 3, 2 and 1 orders on four adjacent price levels, placed as an unobserved prefix; LEVELS 5) x side x serialisation route x (cancel of the order on the furthest level, reduction of an order on the third level, a new order joining the furthest level, nothing), original and reloaded book in lock-step, then the drain probe", ns),
        },
    }
}

/// A side of EXACTLY `n` occupied price levels (1 or 2 orders each) and one aggressor that sweeps all of them,
/// all but one, or half of them in a single match: many fills from one incoming order, every level count 1..=160.
fn exhaustive_level_counts(name: &str) -> Part<Case> {
    // every count 1..=160, then the neighbourhoods of 2^8, 2^9 and 2^10 occupied levels
    let counts: Vec<u32> = (1..=160u32).chain([255, 256, 257, 511, 512, 513, 1_023, 1_024, 1_025]).collect();
    const KINDS: u64 = 5;
    let total = counts.len() as u64 * 2 * KINDS;
    Part {
        name: name.to_string(),
        kind: PartKind::Exhaustive {
            total,
            decode: Box::new(move |i| {
                let kind = i % KINDS;
                let i = i / KINDS;
                let agg_bid = i % 2 == 0;
                let n = counts[(i / 2) as usize];
                let base = 4_000u32;
                // passive levels walk away from the touch: asks at base+1.., bids at base-1..
                let level = |k: u32| if agg_bid { (base + 1 + k) * TICK } else { (base - 1 - k) * TICK };
                let mut ops = vec![];
                let mut vols: Vec<u32> = vec![];
                for k in 0..n {
                    let per = 1 + (k % 4 == 0) as u32;
                    let mut lv = 0;
                    for j in 0..per {
                        let v = 1 + ((k + j) % 3) as u32;
                        lv += v;
                        ops.push(Op::Advance(1));
                        ops.push(Op::CreatePlace { bid: !agg_bid, vol: v, trader: (k % 5) as u32, price: Some(level(k)) });
                    }
                    vols.push(lv);
                }
                let all: u32 = vols.iter().sum();
                let half: u32 = vols.iter().take((n as usize + 1) / 2).sum();
                ops.push(Op::Advance(1));
                ops.push(match kind {
                    0 => Op::CreatePlace { bid: agg_bid, vol: all, trader: 9, price: None },
                    1 => Op::CreatePlace { bid: agg_bid, vol: all + 5, trader: 9, price: Some(level(n - 1)) },
                    2 => Op::CreatePlace { bid: agg_bid, vol: all - 1, trader: 9, price: Some(level(n - 1)) },
                    3 => Op::CreatePlace { bid: agg_bid, vol: half, trader: 9, price: None },
                    _ => Op::CreatePlace { bid: agg_bid, vol: all, trader: 9, price: Some(level((n - 1) / 2)) },
                });
                Some(Case::Book(BookCase { tick: TICK, levels: 10, trading: true, t0: 0, tie: false, ops, drain: true, quiet: 0, bulk: vec![] }))
            }),
            description: "every number n in 1..=160 and in {255, 256, 257, 511, 512, 513, 1023, 1024, 1025} of occupied price levels on the passive side (1 or 2 orders per level) x aggressor side x 5 aggressors (market for everything, limit through the last level for more than everything, limit for all but one unit, market for the nearer half, limit for everything priced at the middle level), LEVELS 10, then the drain probe".to_string(),
        },
    }
}

/// cores of depth `d` (tie-free, advance 1 before every op) followed by a decoded tail
fn exhaustive_tail(name: &str, depth: usize, tail_space: u64, tail: impl Fn(u64, &mut Vec<Op>, &mut BookCase) -> bool + Sync + 'static, descr: String, tie: bool) -> Part<Case> {
    static ADV1: [u64; 1] = [1];
    static ADV01: [u64; 2] = [0, 1];
    let advs: &'static [u64] = if tie { &ADV01 } else { &ADV1 };
    let cores = core_space(depth, advs.len() as u64);
    Part {
        name: name.to_string(),
        kind: PartKind::Exhaustive {
            total: cores * tail_space,
            decode: Box::new(move |i| {
                let core = i / tail_space;
                let t = i % tail_space;
                let mut ops = core_sequence(core, depth, advs, TICK, MID);
                let mut case = case_of(vec![], tie, true, 3);
                if !tail(t, &mut ops, &mut case) {
                    return None;
                }
                case.ops = ops;
                Some(Case::Book(case))
            }),
            description: descr,
        },
    }
}

/// Two further history shapes shared by the book-level checks: *deep queues* (most limit orders rest at
/// one of two prices per side, so queues of 8+ orders build up and are traded through) and *long
/// histories* (hundreds of orders in one book, ids beyond 255).
fn extra_shapes(parts: &mut Vec<Part<Case>>, base: GenCfg, tier: Tier, w_modify: u32) {
    let mut c = base.clone();
    c.narrow = true;
    c.w_modify = w_modify;
    c.max_len = tier.pick(90, 300);
    c.w_cancel = 6;
    parts.push(random_part("random-deep-queues", c, tier.pick(60_000, 1_200_000)));
    // very deep queues: long narrow histories with sweeping market orders (levels of 30+ orders consumed at once)
    let mut c = base.clone();
    c.narrow = true;
    c.sweep_pct = 40;
    c.w_modify = w_modify.min(8);
    c.max_len = tier.pick(450, 900);
    c.w_cancel = 3;
    c.market_pct = 8;
    parts.push(random_part("random-very-deep-queues", c, tier.pick(3_000, 60_000)));
    let mut c = base;
    c.w_modify = w_modify;
    c.max_len = tier.pick(1_200, 3_000);
    c.w_cancel = 8;
    parts.push(random_part("random-long-histories", c, tier.pick(1_500, 30_000)));
}

fn grid_prices() -> [u32; 3] {
    [(MID - 1) * TICK, MID * TICK, (MID + 1) * TICK]
}

pub fn parts(id: &'static str, tier: Tier) -> Vec<Part<Case>> {
    static ADV01: [u64; 2] = [0, 1];
    static ADV1: [u64; 1] = [1];
    let q = tier == Tier::Quick;
    let mut parts: Vec<Part<Case>> = vec![];
    let len = tier.pick(60, 250);
    match id {
        "C01" => {
            parts.push(exhaustive_core("exhaustive-core", tier.pick(4, 5), &ADV01, false));
            if !q {
                parts.push(exhaustive_core("exhaustive-core-tiefree-6", 6, &ADV1, false));
            }
            parts.push(exhaustive_core2("exhaustive-core-5-prices-3-volumes", tier.pick(3, 4), &ADV01, false, 5));
            parts.push(exhaustive_level_depths("exhaustive-level-depths", false));
            parts.push(exhaustive_level_counts("exhaustive-level-counts"));
            // (the reference engine's linear scans make a level of 2^16 orders cost ~15 s per case: thorough tier only;
            // the model-free checks C02, C03, C04 enumerate these populations in their quick tier)
            if !q {
                parts.push(exhaustive_level_populations("exhaustive-level-populations", false, &POP_M));
            }
            let mut c = GenCfg::base(len);
            c.w_modify = 4;
            parts.push(random_part("random-dense", c.clone(), tier.pick(150_000, 3_000_000)));
            c.wide = true;
            parts.push(random_part("random-wide", c, tier.pick(80_000, 2_000_000)));
            extra_shapes(&mut parts, GenCfg::base(len), tier, 4);
        }
        "C02" | "C03" => {
            parts.push(exhaustive_core("exhaustive-core", tier.pick(4, 5), &ADV01, false));
            if id == "C02" {
                // the same alphabet with 1, 2 and 24 published levels (the level arrays are the views under test)
                for lv in [1usize, 2, 24] {
                    let depth = tier.pick(3usize, 4usize);
                    let total = core_space(depth, 2);
                    parts.push(Part {
                        name: format!("exhaustive-core-levels-{}", lv),
                        kind: PartKind::Exhaustive {
                            total,
                            decode: Box::new(move |i| Some(Case::Book(case_of(core_sequence(i, depth, &ADV01, TICK, MID), false, true, lv)))),
                            description: format!("every sequence of exactly {} steps over the C01 alphabet with clock advance 0 or 1, LEVELS = {}", depth, lv),
                        },
                    });
                }
            }
            parts.push(exhaustive_core2("exhaustive-core-5-prices-3-volumes", tier.pick(3, 4), &ADV01, false, if id == "C02" { 4 } else { 5 }));
            parts.push(exhaustive_level_depths("exhaustive-level-depths", false));
            parts.push(exhaustive_level_counts("exhaustive-level-counts"));
            parts.push(exhaustive_level_populations("exhaustive-level-populations", false, if q { &POP_Q } else { &POP_T }));
            if id == "C02" {
                parts.push(exhaustive_snapshot_populations("exhaustive-snapshot-populations", if q { &SNAP_Q } else { &SNAP_T }));
            }
            let mut c = GenCfg::base(len);
            c.w_modify = 14;
            c.w_trading = if id == "C02" { 2 } else { 3 };
            c.w_reload = 2;
            c.w_reset = 2;
            c.start_off_pct = 10;
            parts.push(random_part("random-dense", c.clone(), tier.pick(150_000, 4_000_000)));
            c.wide = true;
            parts.push(random_part("random-wide", c.clone(), tier.pick(80_000, 2_000_000)));
            c.wide = false;
            extra_shapes(&mut parts, c, tier, 14);
        }
        "C04" => {
            // every redundant request on every order after every depth<=3 core sequence
            for (d, off) in [(2usize, false), (3, false), (3, true)] {
                let prices = grid_prices();
                parts.push(exhaustive_tail(
                    &format!("exhaustive-redundant-d{}{}", d, if off { "-trading-off" } else { "" }),
                    d,
                    6 * d as u64,
                    move |t, ops, case| {
                        let idn = (t / 6) as usize;
                        let r = exact_ref(idn);
                        if off {
                            case.trading = false;
                        }
                        let op = match t % 6 {
                            0 => Op::Place(r),
                            1 => Op::Cancel(r),
                            2 => Op::Modify { r, price: None, vol: None },
                            3 => Op::Modify { r, price: Some(prices[1]), vol: None },
                            4 => Op::EvModify { r, price: None, vol: Some(1) },
                            _ => Op::EvCancel(r),
                        };
                        ops.push(op.clone());
                        ops.push(op);
                        true
                    },
                    format!("every tie-free core sequence of depth {} x every order id x 6 requests (place, cancel, empty modify, re-price, volume modify event, cancel event), each issued twice{}", d, if off { ", book created with trading disabled (market orders are rejected)" } else { "" }),
                    false,
                ));
            }
            parts.push(exhaustive_level_depths("exhaustive-level-depths", false));
            parts.push(exhaustive_level_populations("exhaustive-level-populations", false, if q { &POP_Q } else { &POP_T }));
            let mut c = GenCfg::base(len);
            c.redundant_skew = true;
            c.w_modify = 14;
            c.w_cancel = 16;
            c.w_place = 14;
            c.w_event = 14;
            c.w_trading = 4;
            c.start_off_pct = 15;
            c.w_advance = 12;
            c.market_pct = 30;
            // "all operation sequences": a snapshot reload between a transition and the request that follows it
            c.w_reload = 2;
            parts.push(random_part("random-dense-redundant", c.clone(), tier.pick(150_000, 3_000_000)));
            c.wide = true;
            parts.push(random_part("random-wide-redundant", c, tier.pick(60_000, 1_500_000)));
        }
        "C05" => {
            parts.push(exhaustive_core("exhaustive-core-ties", tier.pick(4, 5), &ADV01, true));
            parts.push(exhaustive_core2("exhaustive-core-ties-5-prices-3-volumes", tier.pick(3, 4), &ADV01, true, 5));
            parts.push(exhaustive_level_depths("exhaustive-tied-level-depths", true));
            if !q {
                parts.push(exhaustive_level_populations("exhaustive-tied-level-populations", true, &POP_M));
            }
            // re-queuing modification / reload inserted after every depth<=3 core with ties
            let prices = grid_prices();
            parts.push(exhaustive_tail(
                "exhaustive-ties-requeue-reload",
                3,
                3 * 6 * 17,
                move |t, ops, _| {
                    let cont = t % 17;
                    let t = t / 17;
                    let kind = t % 6;
                    let idn = (t / 6) as usize;
                    let r = exact_ref(idn);
                    let op = match kind {
                        0 => Op::ModifyRel { r, price: None, dvol: 0 },
                        1 => Op::ModifyRel { r, price: None, dvol: 1 },
                        2 => Op::Modify { r, price: Some(prices[0]), vol: None },
                        3 => Op::Modify { r, price: Some(prices[1]), vol: None },
                        4 => Op::Modify { r, price: Some(prices[2]), vol: None },
                        _ => Op::Reload((idn % 4) as u8),
                    };
                    ops.push(op);
                    if cont < 16 {
                        ops.push(core_op(cont as usize, TICK, MID));
                    }
                    true
                },
                "every core sequence of depth 3 with clock advance 0 or 1 x (re-queuing modification of each id: equal volume, larger volume, each grid price; or a reload) x (no continuation or one of the 16 core ops), equal timestamps allowed".to_string(),
                true,
            ));
            let mut c = GenCfg::base(len);
            c.tie = true;
            c.w_modify = 14;
            c.w_reload = 3;
            c.w_advance = 8;
            // tied orders arriving on a book left crossed by a no-trading period
            c.w_trading = 2;
            parts.push(random_part("random-dense-ties", c.clone(), tier.pick(120_000, 2_500_000)));
            c.wide = true;
            parts.push(random_part("random-wide-ties", c.clone(), tier.pick(40_000, 1_000_000)));
            c.wide = false;
            extra_shapes(&mut parts, c, tier, 14);
        }
        "C06" => {
            let prices = grid_prices();
            let d = tier.pick(3usize, 4usize);
            let conts: u64 = tier.pick(17, 17 * 17);
            parts.push(exhaustive_tail(
                "exhaustive-modify",
                d,
                d as u64 * 4 * 5 * conts,
                move |t, ops, _| {
                    let mut cont = t % conts;
                    let t = t / conts;
                    let vk = t % 5;
                    let t = t / 5;
                    let pk = t % 4;
                    let idn = (t / 4) as usize;
                    let r = exact_ref(idn);
                    let price = if pk == 0 { None } else { Some(prices[pk as usize - 1]) };
                    ops.push(Op::Advance(1));
                    ops.push(match vk {
                        0 => Op::Modify { r, price, vol: None },
                        1 => Op::ModifyRel { r, price, dvol: -1 },
                        2 => Op::ModifyRel { r, price, dvol: 0 },
                        3 => Op::ModifyRel { r, price, dvol: 1 },
                        _ => Op::Modify { r, price, vol: Some(1) },
                    });
                    while conts > 1 {
                        let c = cont % 17;
                        cont /= 17;
                        if c < 16 {
                            ops.push(Op::Advance(1));
                            ops.push(core_op(c as usize, TICK, MID));
                        }
                        if cont == 0 {
                            break;
                        }
                    }
                    true
                },
                format!("every tie-free core sequence of depth {} x every order id x price in {{unchanged, 3 grid prices}} x volume in {{unchanged, current-1, current, current+1, 1}} x continuations of length <= {} over the 16 core ops, then the drain probe", d, tier.pick(1, 2)),
                false,
            ));
            let mut c = GenCfg::base(len);
            c.w_modify = 30;
            c.w_event = 12;
            // a snapshot reload between a re-queuing modification and the trade that reveals the queue order
            c.w_reload = 2;
            parts.push(random_part("random-dense-modify", c.clone(), tier.pick(120_000, 2_000_000)));
            c.wide = true;
            parts.push(random_part("random-wide-modify", c.clone(), tier.pick(50_000, 1_000_000)));
            c.wide = false;
            extra_shapes(&mut parts, c, tier, 30);
        }
        "C07" => {
            let d = 3usize;
            parts.push(exhaustive_tail(
                "exhaustive-snapshot-position",
                d,
                4 * 4 * 17,
                move |t, ops, _| {
                    let cont = t % 17;
                    let t = t / 17;
                    let how = (t % 4) as u8;
                    let pos = (t / 4) as usize; // number of core steps before the snapshot
                    // core steps are [Advance(1), op] pairs
                    let at = (pos * 2).min(ops.len());
                    ops.insert(at, Op::Reload(how));
                    if cont < 16 {
                        ops.push(Op::Advance(1));
                        ops.push(core_op(cont as usize, TICK, MID));
                    }
                    true
                },
                "every tie-free core sequence of depth 3 x snapshot taken after 0..3 steps x 4 serialisation routes (string, pretty string, file, pretty file) x (no continuation or one of the 16 core ops), original and reloaded driven in lock-step, then the drain probe".to_string(),
                false,
            ));
            parts.push(exhaustive_snapshot_populations("exhaustive-snapshot-populations", if q { &SNAP_Q } else { &SNAP_T }));
            let mut c = GenCfg::base(len);
            c.w_modify = 12;
            c.w_reload = 6;
            c.w_trading = 3;
            c.w_reset = 2;
            c.start_off_pct = 10;
            parts.push(random_part("random-dense-reload", c.clone(), tier.pick(80_000, 1_500_000)));
            c.wide = true;
            parts.push(random_part("random-wide-reload", c.clone(), tier.pick(30_000, 600_000)));
            c.wide = false;
            extra_shapes(&mut parts, c, tier, 12);
        }
        "C12" => {
            // every off-grid request after every depth-<=2 core: creations (create / create-and-place, both sides,
            // prices one below / one above each grid price) and modifications of every id to an off-grid price
            for d in [1usize, 2] {
                let prices = grid_prices();
                parts.push(exhaustive_tail(
                    &format!("exhaustive-offgrid-d{}", d),
                    d,
                    (2 * 2 * 6 + d as u64 * 6 * 2) * 17,
                    move |t, ops, _| {
                        let cont = t % 17;
                        let t = t / 17;
                        let n_create = 2 * 2 * 6u64;
                        let off = |k: u64| -> u32 { let p = prices[(k / 2) as usize % 3]; if k % 2 == 0 { p - 1 } else { p + 1 } };
                        if t < n_create {
                            let bid = t % 2 == 0;
                            let placing = (t / 2) % 2 == 0;
                            let price = Some(off(t / 4));
                            ops.push(if placing { Op::CreatePlace { bid, vol: 1, trader: 3, price } } else { Op::Create { bid, vol: 1, trader: 3, price } });
                        } else {
                            let t = t - n_create;
                            let idn = (t / 12) as usize;
                            let ev = (t / 6) % 2 == 1;
                            let price = Some(off(t % 6));
                            let r = exact_ref(idn);
                            ops.push(if ev { Op::EvModify { r, price, vol: None } } else { Op::Modify { r, price, vol: Some(2) } });
                        }
                        if cont < 16 {
                            ops.push(Op::Advance(1));
                            ops.push(core_op(cont as usize, TICK, MID));
                        }
                        true
                    },
                    format!("every tie-free core sequence of depth {} x (off-grid creation: create / create-and-place x side x 6 off-grid prices; or off-grid modification of each id, direct and as event, 6 off-grid prices) x (no continuation or one of the 16 core ops), tick 2", d),
                    false,
                ));
            }
            let mut c = GenCfg::base(len);
            c.offgrid = true;
            c.w_modify = 20;
            c.w_create = 10;
            c.w_trading = 2;
            // "at any point of any history": the grid must still be enforced after a snapshot reload
            c.w_reload = 2;
            parts.push(random_part("random-dense-arbitrary-prices", c.clone(), tier.pick(150_000, 3_000_000)));
            c.wide = true;
            parts.push(random_part("random-wide-arbitrary-prices", c, tier.pick(60_000, 1_500_000)));
        }
        "C13" => {
            let d = 3usize;
            parts.push(exhaustive_tail(
                "exhaustive-toggle-window",
                d,
                10 * 17,
                move |t, ops, _| {
                    let cont = t % 17;
                    let w = t / 17;
                    // windows (i <= j) over 0..=3 core steps
                    let mut k = 0;
                    let mut win = (0usize, 0usize);
                    'o: for i in 0..=3usize {
                        for j in i..=3usize {
                            if k == w {
                                win = (i, j);
                                break 'o;
                            }
                            k += 1;
                        }
                    }
                    let a = (win.0 * 2).min(ops.len());
                    ops.insert(a, Op::Trading(false));
                    let b = (win.1 * 2 + 1).min(ops.len());
                    ops.insert(b, Op::Trading(true));
                    if cont < 16 {
                        ops.push(Op::Advance(1));
                        ops.push(core_op(cont as usize, TICK, MID));
                    }
                    true
                },
                "every tie-free core sequence of depth 3 x every window (i<=j) of steps during which trading is disabled x (no continuation or one of the 16 core ops after re-enabling), then the drain probe".to_string(),
                false,
            ));
            let mut c = GenCfg::base(len);
            c.w_trading = 8;
            c.w_modify = 14;
            c.start_off_pct = 30;
            c.market_pct = 25;
            // the flag must survive a snapshot reload (also of a book that never had an order)
            c.w_reload = 3;
            parts.push(random_part("random-dense-toggles", c.clone(), tier.pick(120_000, 2_500_000)));
            c.wide = true;
            parts.push(random_part("random-wide-toggles", c, tier.pick(50_000, 1_000_000)));
        }
        _ => unreachable!(),
    }
    parts
}

pub fn assumptions(id: &str) -> Vec<String> {
    vec![
        "valid-history domain enforced by construction: volumes >= 1, limit prices on the grid strictly inside (0, 2^32-1) (except in C12's arbitrary-price generator), per-side resting volume and traded-volume counter < 2^32 at every moment (computed from the observed state), monotone clock; tick sizes 1..10 (dense) and up to 2^29 (wide), every LEVELS in 1..24".to_string(),
        if id == "C05" { "equal queue timestamps allowed (no clock discipline)".to_string() } else { "clock discipline: Advance(1) inserted before an operation that could queue at a (side, price, time) possibly already used".to_string() },
        "trusted base: the harness's reference engine / recomputation code, rustc, proptest".to_string(),
    ]
}

/// candidate simplifications of a failing history (used after proptest / enumeration)
pub fn simplify(c: &BookCase) -> Vec<BookCase> {
    let mut v = vec![];
    for i in (0..c.ops.len()).rev() {
        let mut d = c.clone();
        d.ops.remove(i);
        v.push(d);
    }
    if c.drain {
        let mut d = c.clone();
        d.drain = false;
        v.push(d);
    }
    v
}
