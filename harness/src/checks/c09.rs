//! C09: a simulation is a pure function of its seed and parameters.

use super::agents::{momentum_params, prob};
use super::Case;
use crate::dynbook::{order_rec, trade_rec};
use crate::engine::{guarded, Outcome, Part, PartKind, Tier};
use crate::ops::Failure;
use bourse_de::agents::{Agent, AgentSet, MarketAgent, MarketAgentSet, MomentumAgent, MomentumMarketAgent, NoiseAgent, NoiseAgentParams, NoiseMarketAgent, RandomAgents, RandomMarketAgents};
use bourse_de::{market_sim_runner, sim_runner, Env, MarketEnv};
use proptest::prelude::*;
use serde::{Deserialize, Serialize};
use std::io::Write;

#[derive(Clone, Debug, PartialEq, Eq, Hash, Serialize, Deserialize)]
pub struct SimCase {
    /// 0..3 single-asset shapes, 3..6 multi-asset shapes
    pub shape: u8,
    pub assets: u8,
    pub seed: u64,
    pub steps: u16,
    pub step_size: u64,
    pub tick: u32,
    pub n_random: u16,
    pub n_noise: u16,
    pub n_mom: u16,
    pub activity: u16,
    pub p_limit: u16,
    pub p_market: u16,
    pub p_cancel: u16,
    pub trade_vol: u32,
    pub mu_milli: i32,
    pub sigma_milli: u32,
    pub decay_milli: u32,
    pub demand_milli: u32,
    pub scale_milli: u32,
    pub ratio_milli: u32,
}

#[derive(AgentSet)]
struct SA {
    r: RandomAgents,
    n: NoiseAgent,
    m: MomentumAgent,
}
#[derive(AgentSet)]
struct SB {
    m: MomentumAgent,
    n1: NoiseAgent,
    n2: NoiseAgent,
    r: RandomAgents,
}
#[derive(AgentSet)]
struct SC {
    n: NoiseAgent,
    inner: SA,
}
#[derive(MarketAgentSet)]
struct MA {
    r: RandomMarketAgents,
    n: NoiseMarketAgent,
    m: MomentumMarketAgent,
}
#[derive(MarketAgentSet)]
struct MB {
    m0: MomentumMarketAgent,
    m1: MomentumMarketAgent,
    n0: NoiseMarketAgent,
    n1: NoiseMarketAgent,
    r: RandomMarketAgents,
}
#[derive(MarketAgentSet)]
struct MC {
    inner: MA,
    n: NoiseMarketAgent,
}

impl SimCase {
    fn noise(&self) -> NoiseAgentParams {
        NoiseAgentParams { tick_size: self.tick, p_limit: prob(self.p_limit), p_market: prob(self.p_market), p_cancel: prob(self.p_cancel), trade_vol: self.trade_vol, price_dist_mu: self.mu_milli as f64 / 1000.0, price_dist_sigma: self.sigma_milli as f64 / 1000.0 }
    }
    fn mom(&self) -> bourse_de::agents::MomentumParams {
        momentum_params(self.tick, self.p_cancel, self.trade_vol, self.decay_milli, self.demand_milli, self.scale_milli, self.ratio_milli, self.mu_milli, self.sigma_milli)
    }
    fn random(&self) -> RandomAgents {
        RandomAgents::new(self.n_random as usize, (900, 1100), (1, 50), self.tick, prob(self.activity))
    }
    fn random_m(&self, a: usize) -> RandomMarketAgents {
        RandomMarketAgents::new(a, self.n_random as usize, (900, 1100), (1, 50), self.tick, prob(self.activity))
    }
    fn sa(&self) -> SA {
        SA { r: self.random(), n: NoiseAgent::new(1000, self.n_noise, self.noise()), m: MomentumAgent::new(2000, self.n_mom, self.mom()) }
    }
    fn ma(&self, na: usize) -> MA {
        MA { r: self.random_m(0), n: NoiseMarketAgent::new((na - 1).min(1), 1000, self.n_noise, self.noise()), m: MomentumMarketAgent::new(2000, self.n_mom, 0, self.mom()) }
    }
}

/// FNV-1a over a canonical serialisation (no std hasher: RandomState must not enter the digest)
#[derive(Clone, Copy, Debug, PartialEq, Eq, Hash, Serialize, Deserialize)]
pub struct Digest {
    pub h: u64,
    pub orders: u64,
    pub trades: u64,
    pub words: u64,
}

struct Fnv(Digest);
impl Fnv {
    fn new() -> Self {
        Fnv(Digest { h: 0xcbf29ce484222325, orders: 0, trades: 0, words: 0 })
    }
    fn u64(&mut self, x: u64) {
        for b in x.to_le_bytes() {
            self.0.h ^= b as u64;
            self.0.h = self.0.h.wrapping_mul(0x100000001b3);
        }
        self.0.words += 1;
    }
}

fn digest_book(f: &mut Fnv, orders: Vec<&bourse_book::types::Order>, trades: &Vec<bourse_book::types::Trade>) {
    for o in orders {
        let r = order_rec(o);
        for x in [r.bid as u64, r.status.code() as u64, r.arr_time, r.end_time, r.vol as u64, r.start_vol as u64, r.price as u64, r.trader as u64, r.id as u64] {
            f.u64(x);
        }
        f.0.orders += 1;
    }
    for t in trades {
        let r = trade_rec(t);
        for x in [r.t, r.bid as u64, r.price as u64, r.vol as u64, r.active as u64, r.passive as u64] {
            f.u64(x);
        }
        f.0.trades += 1;
    }
}

fn digest_records<const N: usize>(f: &mut Fnv, rec: &bourse_de::Level2DataRecords<N>, tv: impl crate::envs::ToU32s) {
    use crate::envs::ToU32s;
    // (conversions tolerate another integer width of the public record fields)
    for v in [rec.prices.0.to_u32s(), rec.prices.1.to_u32s(), rec.volumes.0.to_u32s(), rec.volumes.1.to_u32s()] {
        f.u64(v.len() as u64);
        for x in v {
            f.u64(x as u64);
        }
    }
    let mut per_level: Vec<Vec<u32>> = vec![];
    per_level.extend(rec.volumes_at_levels.0.iter().map(|v| v.to_u32s()));
    per_level.extend(rec.volumes_at_levels.1.iter().map(|v| v.to_u32s()));
    per_level.extend(rec.orders_at_levels.0.iter().map(|v| v.to_u32s()));
    per_level.extend(rec.orders_at_levels.1.iter().map(|v| v.to_u32s()));
    for v in per_level {
        f.u64(v.len() as u64);
        for x in v {
            f.u64(x as u64);
        }
    }
    let tv = tv.to_u32s();
    f.u64(tv.len() as u64);
    for x in tv {
        f.u64(x as u64);
    }
}

fn run_market<A: MarketAgentSet, const M: usize>(c: &SimCase, agents: &mut A, progress: bool) -> Digest {
    let mut env = MarketEnv::<M, 10>::new(0, [c.tick; M], c.step_size, true);
    market_sim_runner(&mut env, agents, c.seed, c.steps as u64, progress);
    let mut f = Fnv::new();
    for a in 0..M {
        digest_book(&mut f, env.get_orders(a), env.get_trades(a));
        digest_records(&mut f, env.get_level_2_data_history(a), env.get_trade_vols(a));
    }
    f.0
}

fn run_market_shape<const M: usize>(c: &SimCase, progress: bool) -> Digest {
    match c.shape {
        3 => run_market::<_, M>(c, &mut c.ma(M), progress),
        4 => {
            let mut a = MB {
                m0: MomentumMarketAgent::new(2000, c.n_mom, 0, c.mom()),
                m1: MomentumMarketAgent::new(3000, c.n_mom, M - 1, c.mom()),
                n0: NoiseMarketAgent::new(0, 1000, c.n_noise, c.noise()),
                n1: NoiseMarketAgent::new(M - 1, 1500, c.n_noise, c.noise()),
                r: c.random_m(M - 1),
            };
            run_market::<_, M>(c, &mut a, progress)
        }
        _ => {
            let mut a = MC { inner: c.ma(M), n: NoiseMarketAgent::new(0, 5000, c.n_noise, c.noise()) };
            run_market::<_, M>(c, &mut a, progress)
        }
    }
}

/// One complete simulation through the crate's own runners.
pub fn simulate(c: &SimCase, progress: bool) -> Digest {
    if c.shape < 3 {
        let mut env = Env::new(0, c.tick, c.step_size, true);
        match c.shape {
            0 => sim_runner(&mut env, &mut c.sa(), c.seed, c.steps as u64, progress),
            1 => {
                let mut a = SB { m: MomentumAgent::new(2000, c.n_mom, c.mom()), n1: NoiseAgent::new(1000, c.n_noise, c.noise()), n2: NoiseAgent::new(1500, c.n_noise, c.noise()), r: c.random() };
                sim_runner(&mut env, &mut a, c.seed, c.steps as u64, progress)
            }
            _ => {
                let mut a = SC { n: NoiseAgent::new(5000, c.n_noise, c.noise()), inner: c.sa() };
                sim_runner(&mut env, &mut a, c.seed, c.steps as u64, progress)
            }
        }
        let mut f = Fnv::new();
        digest_book(&mut f, env.get_orders(), env.get_trades());
        digest_records(&mut f, env.get_level_2_data_history(), env.get_trade_vols());
        f.0
    } else {
        match c.assets.clamp(1, 3) {
            1 => run_market_shape::<1>(c, progress),
            2 => run_market_shape::<2>(c, progress),
            _ => run_market_shape::<3>(c, progress),
        }
    }
}

/// `verif c09-child <progress 0|1>`: reads one JSON SimCase per line on stdin, prints one digest per line.
pub fn child_main(progress: bool) -> i32 {
    let stdin = std::io::stdin();
    let mut line = String::new();
    loop {
        line.clear();
        match stdin.read_line(&mut line) {
            Ok(0) | Err(_) => break,
            Ok(_) => {}
        }
        let Ok(c) = serde_json::from_str::<SimCase>(line.trim()) else { continue };
        let d = simulate(&c, progress);
        println!("{}", serde_json::to_string(&d).unwrap());
        let _ = std::io::stdout().flush();
    }
    0
}

/// Names of the environment variables that the sources of bourse read (`env::var("X")`, `var_os("X")`,
/// `option_env!("X")`), collected from the working tree the harness was built against: the odd child variants run
/// with every one of them set, so a run that consults the process environment differs from one that does not.
fn env_vars_read_by_bourse() -> &'static Vec<String> {
    static V: std::sync::OnceLock<Vec<String>> = std::sync::OnceLock::new();
    V.get_or_init(|| {
        let root = std::env::var("VERIF_REPO").unwrap_or_else(|_| "/repo".to_string());
        let mut names: Vec<String> = vec![];
        let mut stack: Vec<std::path::PathBuf> = vec![std::path::Path::new(&root).join("crates"), std::path::Path::new(&root).join("rust")];
        while let Some(d) = stack.pop() {
            let Ok(rd) = std::fs::read_dir(&d) else { continue };
            for e in rd.flatten() {
                let p = e.path();
                if p.is_dir() {
                    if p.file_name().map_or(false, |n| n == "target" || n == "tests" || n == "benches") {
                        continue;
                    }
                    stack.push(p);
                } else if p.extension().map_or(false, |x| x == "rs") {
                    let Ok(text) = std::fs::read_to_string(&p) else { continue };
                    // every string literal that looks like an environment variable name (upper case with an
                    // underscore: the name may be held in a constant)
                    if text.contains("env::") || text.contains("std::env") {
                        for piece in text.split('"').skip(1).step_by(2) {
                            if piece.len() >= 4 && piece.len() < 80 && piece.contains('_') && piece.chars().all(|c| c.is_ascii_uppercase() || c.is_ascii_digit() || c == '_') && !names.iter().any(|x| x == piece) {
                                names.push(piece.to_string());
                            }
                        }
                    }
                    for pat in ["var(", "var_os(", "option_env!(", "vars().", "env!("] {
                        let mut rest = text.as_str();
                        while let Some(i) = rest.find(pat) {
                            rest = &rest[i + pat.len()..];
                            let t = rest.trim_start();
                            if let Some(t) = t.strip_prefix('"') {
                                if let Some(j) = t.find('"') {
                                    let name = &t[..j];
                                    if !name.is_empty() && name.len() < 80 && name.chars().all(|c| c.is_ascii_alphanumeric() || c == '_') && !names.iter().any(|x| x == name) {
                                        names.push(name.to_string());
                                    }
                                }
                            }
                        }
                    }
                }
            }
        }
        names.sort();
        names
    })
}

fn run_in_child(c: &SimCase, progress: bool, variant: u32) -> Result<Digest, String> {
    let want_pin = variant % 2 == 1 && std::path::Path::new("/usr/bin/taskset").exists();
    match run_in_child_with(c, progress, variant, want_pin) {
        // (cpu 0 may not be available to this process: then the child runs unconfined)
        Err(_) if want_pin => run_in_child_with(c, progress, variant, false),
        r => r,
    }
}

fn run_in_child_with(c: &SimCase, progress: bool, variant: u32, pin: bool) -> Result<Digest, String> {
    let exe = std::env::current_exe().map_err(|e| e.to_string())?;
    let cwd = if variant % 2 == 0 { std::path::PathBuf::from("/") } else { crate::engine::scratch_dir() };
    // the odd variants are confined to ONE cpu (taskset, where it exists): a run must not depend on how many cpus the
    // process may use either
    let mut cmd = if pin {
        let mut c = std::process::Command::new("/usr/bin/taskset");
        c.arg("-c").arg("0").arg(exe);
        c
    } else {
        std::process::Command::new(exe)
    };
    cmd.arg("c09-child").arg(if progress { "1" } else { "0" }).current_dir(cwd).stdin(std::process::Stdio::piped()).stdout(std::process::Stdio::piped()).stderr(std::process::Stdio::null());
    // a different environment block per variant
    cmd.env_clear();
    cmd.env("VERIF_CHILD_VARIANT", format!("{}", variant));
    for k in 0..(variant * 7 % 23) {
        cmd.env(format!("PAD_{}", k), "x".repeat((k as usize * 37) % 200));
    }
    if variant % 2 == 1 {
        cmd.env("TZ", "Pacific/Kiritimati").env("LANG", "tr_TR.UTF-8").env("RUST_BACKTRACE", "1").env("COLUMNS", "40");
        cmd.env("RUST_LOG", "trace").env("NO_COLOR", "1").env("TERM", "dumb").env("RAYON_NUM_THREADS", "3").env("DEBUG", "1");
        for name in env_vars_read_by_bourse() {
            // (cargo's own compile-time variables are not run-time inputs)
            if !name.starts_with("CARGO_") {
                cmd.env(name, "1");
            }
        }
    }
    let mut ch = cmd.spawn().map_err(|e| e.to_string())?;
    {
        let mut si = ch.stdin.take().ok_or("no stdin")?;
        writeln!(si, "{}", serde_json::to_string(c).unwrap()).map_err(|e| e.to_string())?;
    }
    let out = ch.wait_with_output().map_err(|e| e.to_string())?;
    if !out.status.success() {
        return Err(format!("child exited with {:?}", out.status));
    }
    let s = String::from_utf8_lossy(&out.stdout);
    serde_json::from_str::<Digest>(s.lines().next().unwrap_or("")).map_err(|e| format!("bad child output {:?}: {}", s, e))
}

pub fn outcome(c: &SimCase) -> Outcome {
    match guarded("C09", || run(c)) {
        Ok((classes, nontrivial, res)) => Outcome { nontrivial: res.is_ok() && nontrivial, classes, result: res.err() },
        Err(f) => Outcome { nontrivial: false, classes: vec![("panics", 1)], result: Some(f) },
    }
}

fn run(c: &SimCase) -> (Vec<(&'static str, u64)>, bool, Result<(), Failure>) {
    let d1 = simulate(c, false);
    let d2 = simulate(c, false);
    let nontrivial = d1.orders >= 8 && d1.trades >= 1;
    let mut classes = vec![("configurations", 1u64), ("executions", 2), ("orders", d1.orders), ("trades", d1.trades), ("multi_asset", (c.shape >= 3) as u64)];
    let fail = |sig: &str, msg: String| Failure::new("C09", sig, msg);
    if d1 != d2 {
        return (classes, nontrivial, Err(fail("C09 two runs in one process differ", format!("{:?} vs {:?}", d1, d2))));
    }
    // separate OS processes, both progress-bar branches, different environment blocks and directories
    let v = (c.seed % 97) as u32;
    for (progress, variant) in [(true, 2 * v + 1), (false, 2 * v + 2)] {
        match run_in_child(c, progress, variant) {
            Ok(d) => {
                classes[1].1 += 1;
                if d != d1 {
                    let sig = if progress { "C09 run with the progress bar in another process differs" } else { "C09 run in another process differs" };
                    return (classes, nontrivial, Err(fail(sig, format!("in-process {:?}, child (progress {}, variant {}) {:?}", d1, progress, variant, d))));
                }
            }
            Err(e) => {
                // a child that cannot be started is a problem of the sandbox, not a finding about bourse:
                // counted (evidence shows it), never reported as a violation
                eprintln!("note: c09 child process unavailable: {}", e);
                classes.push(("child_process_unavailable", 1));
            }
        }
    }
    // different seeds give different runs: an unrelated seed, seeds that differ in one bit (lowest, bit 32,
    // highest: a seed truncated or reinterpreted on the way to the generator would alias them), and - for the
    // boundary seeds 0 and u64::MAX - the constants that a "guard" against a degenerate seed would typically
    // substitute
    if nontrivial {
        let mut others: Vec<u64> = vec![c.seed.wrapping_add(0x9E37_79B9_7F4A_7C15) ^ 1, c.seed ^ 1, c.seed ^ (1 << 32), c.seed ^ (1 << 63)];
        if c.seed == 0 || c.seed == u64::MAX {
            others.extend([1u64, 42, 0x9E37_79B9_7F4A_7C15, 0xBF58_476D_1CE4_E5B9, 0x94D0_49BB_1331_11EB, 0x2545_F491_4F6C_DD1D, 0x853C_49E6_748F_EA9B, 0xDEAD_BEEF, 0x5DEE_CE66D, u64::MAX - 1, u64::MAX >> 1, 1 << 63, 1 << 32, u32::MAX as u64]);
            others.push(if c.seed == 0 { u64::MAX } else { 0 });
        }
        others.retain(|s| *s != c.seed);
        for s2 in others {
            let mut c2 = c.clone();
            c2.seed = s2;
            let d3 = simulate(&c2, false);
            classes[1].1 += 1;
            if d3 == d1 {
                return (classes, nontrivial, Err(fail("C09 different seeds give identical runs", format!("seeds {} and {} both give {:?}", c.seed, c2.seed, d1))));
            }
        }
    }
    (classes, nontrivial, Ok(()))
}

pub fn sim_case_strategy() -> BoxedStrategy<SimCase> {
    let pc = || prop_oneof![1 => Just(0u16), 2 => Just(1u16), 6 => 2000u16..=65535];
    let cnt = || prop_oneof![12 => 0u16..=12, 3 => 13u16..=80, 1 => 80u16..=400];
    (
        (0u8..6, 1u8..=3, prop_oneof![1 => Just(0u64), 1 => Just(u64::MAX), 8 => any::<u64>()], 1u16..=200, prop_oneof![3 => Just(100u64), 3 => Just(1000u64), 2 => Just(1_000_000u64), 1 => Just(0u64), 1 => 1u64..50, 1 => Just(1u64 << 40)], 1u32..=10),
        // agent counts: mostly small, but also the hundreds of traders of the project's own examples, so
        // that code paths depending on the population size (many live orders per agent set) are reached
        (cnt(), cnt(), cnt(), pc(), pc(), pc(), pc()),
        (1u32..=200, -1000i32..=4000, prop_oneof![3 => 0u32..=3_000, 1 => Just(10_000u32)], 1u32..=1000, 0u32..=50_000, 1u32..=2_000, 0u32..=2_000),
        (0u8..50, 600u16..=1300),
    )
        .prop_map(|((shape, assets, seed, steps, step_size, tick), (n_random, n_noise, n_mom, activity, p_limit, p_market, p_cancel), (trade_vol, mu_milli, sigma_milli, decay_milli, demand_milli, scale_milli, ratio_milli), (big, big_n))| {
            // 2 % of the configurations: very large populations acting every step (thousands of instructions per
            // step, over several assets in the multi-asset shapes), few steps
            let huge = big == 0;
            let (n_random, n_noise, n_mom) = if huge { (big_n, big_n, big_n / 2) } else { (n_random, n_noise, n_mom) };
            let (activity, p_limit, p_market) = if huge { (1, 1, 1) } else { (activity, p_limit, p_market) };
            let (steps, assets) = if huge { (steps.min(12), assets.max(2)) } else { (steps, assets) };
            SimCase {
            shape,
            assets,
            seed,
            steps,
            step_size,
            tick,
            n_random,
            n_noise,
            n_mom,
            activity,
            p_limit,
            p_market,
            p_cancel,
            trade_vol,
            mu_milli,
            sigma_milli,
            decay_milli,
            demand_milli,
            scale_milli,
            ratio_milli,
            }
        })
        .boxed()
}

pub fn parts(tier: Tier) -> (Vec<Part<Case>>, String) {
    (
        vec![Part { name: "configurations".to_string(), kind: PartKind::Random { make: Box::new(|| sim_case_strategy().prop_map(Case::Sim).boxed()), cases: tier.pick(6_000, 60_000) } }],
        "A case is a complete simulation configuration: seed (incl. 0 and u64::MAX), 1..200 steps, step size, tick 1..10, environment (Env or MarketEnv<1..3,10>) and one of six statically derived agent compositions (#[derive(AgentSet)] / #[derive(MarketAgentSet)] structs containing random, noise and momentum agents in different field orders and multiplicities, one of them nested; a count of 0 disables a member) with generated parameters, executed through the crate's own sim_runner / market_sim_runner. A stable FNV digest over all order records, all trades, the complete level-2 history and the per-step traded volumes must be equal for: two runs in one process on fresh objects, a run in a separate OS process with the progress bar, and a run in another separate OS process without it (different environment blocks and working directories, ASLR, per-process hash seeds); and must differ for a different seed. Non-trivial: the run created >= 8 orders and >= 1 trade.".to_string(),
    )
}
