//! Step-environment checks: C08, C10, C11, environment parts of C05, C12, C13, C14.

use super::Case;
use crate::engine::{guarded, Outcome, Part, PartKind, Tier};
use crate::envcase::{run_env_case, EnvCase, EnvOracles, Instr, StepSpec};
use crate::ops::Ref;
use crate::gen::{env_case_strategy, EnvGenCfg};
use proptest::prelude::*;

fn oracles_for(id: &str) -> EnvOracles {
    let mut o = EnvOracles::default();
    match id {
        "C08" => o.schedule = true,
        "C14" => o.schedule = true,
        "C10" => o.invisible = true,
        "C11" => o.records = true,
        "C12" => {
            o.grid = true;
            // the level data an environment publishes (cached snapshot, recorded histories) must account for the
            // resting volume exactly as the live book's does, also for prices at the ends of the range
            o.records = true;
            o.invisible = true;
        }
        "C13" => o.trading = true,
        "C05" => {
            o.schedule = true;
            o.audits = true;
        }
        _ => {}
    }
    o
}

pub fn env_outcome(id: &'static str, case: &EnvCase) -> Outcome {
    let orc = oracles_for(id);
    match guarded(id, || run_env_case(case, orc, id)) {
        Ok((f, res)) => {
            let nontrivial = match id {
                "C08" => f.order_sensitive_batches >= 1 && !f.inconclusive,
                "C14" => f.assets_active >= 2 && f.order_sensitive_batches >= 1 && !f.inconclusive,
                "C10" => f.would_trade_submissions >= 1,
                "C11" => f.asym_steps >= 1,
                "C12" => f.offgrid_nonempty,
                "C13" => f.crossed_while_off && f.traded_after_reenable,
                "C05" => f.overfull_steps >= 1 && f.trades >= 1,
                _ => false,
            };
            let b = |x: bool| x as u64;
            Outcome {
                nontrivial: res.is_ok() && nontrivial,
                classes: vec![
                    ("env_cases", 1),
                    ("env_steps", f.steps),
                    ("env_quiet_steps_no_getter_called", f.quiet_steps),
                    ("env_instructions", f.instructions),
                    ("env_instructions_skipped", f.skipped_instr),
                    ("env_empty_steps", f.empty_steps),
                    ("env_overfull_steps", f.overfull_steps),
                    ("env_steps_with_exactly_step_size_instructions", f.full_steps),
                    ("env_order_sensitive_batches", f.order_sensitive_batches),
                    ("env_several_instructions_for_one_order", f.same_order_multi_instr),
                    ("env_instruction_for_order_of_same_batch", f.same_batch_target),
                    ("env_steps_with_multiple_consistent_schedules", f.multi_candidate_steps),
                    ("env_plain_book_rebuilds", f.rebuilds),
                    ("env_inconclusive_cases", b(f.inconclusive)),
                    ("env_trades", f.trades),
                    ("env_large_batch_cases", b(f.max_batch >= 30)),
                    ("env_offgrid_rejected", f.offgrid_rejected),
                    ("env_toggles", f.toggles),
                    ("env_asymmetric_steps", f.asym_steps),
                    ("env_would_change_book_submissions", f.would_trade_submissions),
                    ("env_max_live_schedules_ge2", b(f.candidates_max >= 2)),
                ],
                result: res.err(),
            }
        }
        Err(f) => Outcome { nontrivial: false, classes: vec![("panics", 1)], result: Some(f) },
    }
}

pub fn simplify_env(c: &EnvCase) -> Vec<EnvCase> {
    let mut v = vec![];
    for i in (0..c.steps.len()).rev() {
        if c.steps.len() > 1 {
            let mut d = c.clone();
            d.steps.remove(i);
            v.push(d);
        }
        let m = c.steps[i].instrs.len();
        if m > 64 {
            // a large batch: remove blocks (halves .. sixteenths) instead of single instructions - one candidate per
            // instruction would cost m copies of an m-instruction case (tens of thousands in the level-population cases)
            let mut size = m / 2;
            while size >= (m / 16).max(1) {
                let mut at = 0;
                while at < m {
                    let mut d = c.clone();
                    d.steps[i].instrs.drain(at..(at + size).min(m));
                    v.push(d);
                    at += size;
                }
                size /= 2;
            }
            continue;
        }
        for j in (0..m).rev() {
            let mut d = c.clone();
            d.steps[i].instrs.remove(j);
            v.push(d);
        }
    }
    if c.drain {
        let mut d = c.clone();
        d.drain = false;
        v.push(d);
    }
    v
}

/// Large volumes (up to 2^31 per order) with exact accounting: at most one volume-adding instruction per
/// step, so a side can be nearly full while a crossing order arrives, and several steps trade ~2^31 each.
fn big_vol_cfg(base: &EnvGenCfg, max_steps: usize) -> EnvGenCfg {
    let mut c = base.clone();
    c.big_vols = true;
    c.max_steps = max_steps;
    c.max_batch = 3;
    c.large_batch_pct = 0;
    c.w_new = 80;
    c.market_pct = 25;
    // no modifications: a re-priced resting order of 2^31 could trade in the same step as the new order and
    // push the step's traded volume past 2^32 (outside the domain)
    c.w_modify = 0;
    c
}

fn env_part(name: &str, cfg: EnvGenCfg, cases: u64) -> Part<Case> {
    Part { name: name.to_string(), kind: PartKind::Random { make: Box::new(move || env_case_strategy(cfg.clone()).prop_map(Case::Env).boxed()), cases } }
}

/// The 12 instructions of the small environment alphabet (asset `a`, tick 2, resting book of step 0:
/// bids id0 3@98, id1 2@100; asks id2 3@104, id3 2@106).
fn small_instr(k: usize, a: u8) -> Instr {
    let exact = |i: u8| Ref { pref: 100 + i, ix: 0 };
    match k {
        0 => Instr::New { asset: a, bid: true, vol: 1, trader: 1, price: Some(100) },
        1 => Instr::New { asset: a, bid: true, vol: 4, trader: 2, price: Some(104) },
        2 => Instr::New { asset: a, bid: false, vol: 1, trader: 3, price: Some(104) },
        3 => Instr::New { asset: a, bid: false, vol: 4, trader: 4, price: Some(100) },
        4 => Instr::New { asset: a, bid: true, vol: 4, trader: 5, price: None },
        5 => Instr::New { asset: a, bid: false, vol: 4, trader: 6, price: None },
        6 => Instr::Cancel { asset: a, r: exact(1) },
        7 => Instr::Cancel { asset: a, r: exact(2) },
        // the first order created in this batch, if any (status New at submission)
        8 => Instr::Cancel { asset: a, r: Ref { pref: 1, ix: 0 } },
        9 => Instr::Modify { asset: a, r: exact(1), price: Some(104), vol: None },
        10 => Instr::Modify { asset: a, r: exact(2), price: None, vol: Some(1) },
        _ => Instr::Modify { asset: a, r: exact(3), price: Some(100), vol: Some(5) },
    }
}

/// Every batch of exactly `k` instructions over the 12-instruction alphabet, processed after a fixed
/// seeding step, for every seed in 0..seeds, on Env<3> and MarketEnv<2,3> (second asset holds the
/// same resting book and receives the odd-numbered instructions).
fn exhaustive_env_part(name: &str, k: usize, seeds: u64, toggle_off: bool) -> Part<Case> {
    let batches = 12u64.pow(k as u32);
    let total = batches * seeds * 2;
    Part {
        name: name.to_string(),
        kind: PartKind::Exhaustive {
            total,
            decode: Box::new(move |i| {
                let market = i % 2 == 1;
                let i = i / 2;
                let seed = i % seeds;
                let mut b = i / seeds;
                let n_assets = if market { 2 } else { 1 };
                let mut seed_step = vec![];
                for a in 0..n_assets as u8 {
                    seed_step.push(Instr::New { asset: a, bid: true, vol: 3, trader: 9, price: Some(98) });
                    seed_step.push(Instr::New { asset: a, bid: true, vol: 2, trader: 9, price: Some(100) });
                    seed_step.push(Instr::New { asset: a, bid: false, vol: 3, trader: 9, price: Some(104) });
                    seed_step.push(Instr::New { asset: a, bid: false, vol: 2, trader: 9, price: Some(106) });
                }
                // asset-major submission keeps per-asset ids 0..3 in both environments
                let mut instrs = vec![];
                for j in 0..k {
                    let code = (b % 12) as usize;
                    b /= 12;
                    let a = if market { (j % 2) as u8 } else { 0 };
                    instrs.push(small_instr(code, a));
                }
                let steps = vec![StepSpec { toggle: None, instrs: seed_step }, StepSpec { toggle: if toggle_off { Some(false) } else { None }, instrs }, StepSpec { toggle: if toggle_off { Some(true) } else { None }, instrs: vec![] }];
                Some(Case::Env(EnvCase { kind_assets: if market { 2 } else { 0 }, levels: 3, ticks: vec![2, 2], t0: 0, step_size: 16, trading: true, seed: seed.wrapping_mul(0x9E37_79B9_7F4A_7C15) ^ crate::engine::verif_seed(), steps, drain: true, exact_vols: false, quiet_steps: 0 }))
            }),
            description: format!("after a fixed seeding step (2 bids, 2 asks resting per asset), every batch of exactly {} instructions over a 12-instruction alphabet (4 limit orders incl. crossing ones, 2 market orders, 3 cancels incl. one of an order of the same batch, 3 modifies: crossing re-price, pure reduction, re-price with volume) x {} seeds x {{Env<3>, MarketEnv<2,3>}}{}, then an empty step and two draining steps", k, seeds, if toggle_off { ", batch processed while trading is disabled" } else { "" }),
        },
    }
}

/// Every batch size n in 1..=150 (after the fixed seeding step): n instructions, mostly new limit orders on both
/// sides with every fifth one crossing, plus up to four cancels / modifies of the seeded orders, processed in a
/// step of n, n+1 or 3n+7 time units (or, `overfull`, of about n/2 and n-1 units), on Env<3> and MarketEnv<2,3>.
fn exhaustive_batch_sizes(name: &str, overfull: bool, seeds: u64) -> Part<Case> {
    const MAXN: u64 = 150;
    let total = MAXN * 3 * 2 * seeds;
    Part {
        name: name.to_string(),
        kind: PartKind::Exhaustive {
            total,
            decode: Box::new(move |i| {
                let market = i % 2 == 1;
                let i = i / 2;
                let seed = i % seeds;
                let i = i / seeds;
                let sv = i % 3;
                let n = (i / 3) as usize + 1;
                let step_size: u64 = if overfull {
                    match sv {
                        0 => (n as u64 / 2).max(1),
                        1 => (n as u64).saturating_sub(1).max(1),
                        _ => (n as u64 / 3).max(1),
                    }
                } else {
                    match sv {
                        0 => n as u64,
                        1 => n as u64 + 1,
                        _ => 3 * n as u64 + 7,
                    }
                };
                let n_assets = if market { 2 } else { 1 };
                let mut seed_step = vec![];
                for a in 0..n_assets as u8 {
                    seed_step.push(Instr::New { asset: a, bid: true, vol: 3, trader: 9, price: Some(98) });
                    seed_step.push(Instr::New { asset: a, bid: true, vol: 2, trader: 9, price: Some(100) });
                    seed_step.push(Instr::New { asset: a, bid: false, vol: 3, trader: 9, price: Some(104) });
                    seed_step.push(Instr::New { asset: a, bid: false, vol: 2, trader: 9, price: Some(106) });
                }
                // the seeding step must fit its own step size: it is stepped with the case's step size, so pad
                // small step sizes by splitting the seeding over several steps
                let mut steps: Vec<StepSpec> = vec![];
                for chunk in seed_step.chunks(step_size.min(8) as usize) {
                    steps.push(StepSpec { toggle: None, instrs: chunk.to_vec() });
                }
                let mut instrs = vec![];
                for j in 0..n {
                    let a = if market { (j % 2) as u8 } else { 0 };
                    let k = j / n_assets;
                    let ins = if j < 4 && n >= 6 {
                        small_instr(6 + (j * 2) % 6, a)
                    } else if k % 5 == 4 {
                        Instr::New { asset: a, bid: k % 2 == 0, vol: 1 + (k % 3) as u32, trader: 2, price: Some(if k % 2 == 0 { 104 } else { 100 }) }
                    } else if k % 2 == 0 {
                        Instr::New { asset: a, bid: true, vol: 1 + (k % 4) as u32, trader: 1, price: Some(80 + 2 * (k % 10) as u32) }
                    } else {
                        Instr::New { asset: a, bid: false, vol: 1 + (k % 3) as u32, trader: 3, price: Some(106 + 2 * (k % 10) as u32) }
                    };
                    instrs.push(ins);
                }
                steps.push(StepSpec { toggle: None, instrs });
                steps.push(StepSpec { toggle: None, instrs: vec![] });
                Some(Case::Env(EnvCase { kind_assets: if market { 2 } else { 0 }, levels: 3, ticks: vec![2, 2], t0: 5, step_size, trading: true, seed: seed.wrapping_mul(0x9E37_79B9_7F4A_7C15) ^ crate::engine::verif_seed() ^ n as u64, steps, drain: !overfull, exact_vols: false, quiet_steps: 0 }))
            }),
            description: format!("every batch size n in 1..=150 after a seeding step: n instructions (new limit orders on both sides, every fifth crossing, up to four cancels / modifies of the seeded orders) processed in a step of {} time units x {} seeds x {{Env<3>, MarketEnv<2,3>}}, then an empty step{}", if overfull { "about n/2, n-1 and n/3" } else { "n, n+1 and 3n+7" }, seeds, if overfull { "" } else { " and two draining steps" }),
        },
    }
}

/// Runs of EXACTLY k steps for k around 256, 512, 1024, 2048, 4096 with an instruction every few dozen steps:
/// recorded histories that outgrow a pre-allocated capacity or a narrow step counter.
fn exhaustive_step_counts(name: &str, max_k: usize) -> Part<Case> {
    let ks: Vec<usize> = [255usize, 256, 257, 511, 512, 513, 1023, 1024, 1025, 2047, 2048, 2049, 4095, 4096, 4097].into_iter().filter(|k| *k <= max_k).collect();
    let total = ks.len() as u64 * 2;
    Part {
        name: name.to_string(),
        kind: PartKind::Exhaustive {
            total,
            decode: Box::new(move |i| {
                let market = i % 2 == 1;
                let k = ks[(i / 2) as usize];
                let n_assets = if market { 2u8 } else { 1 };
                let mut steps = vec![];
                for j in 0..k {
                    let mut instrs = vec![];
                    if j % 37 == 0 || j + 3 >= k {
                        let a = (j / 37) as u8 % n_assets;
                        let bid = (j / 37) % 2 == 0;
                        // resting orders on both sides, every third one crossing
                        let price = if (j / 37) % 3 == 2 { if bid { 104 } else { 98 } } else if bid { 96 + 2 * ((j / 37) % 3) as u32 } else { 104 + 2 * ((j / 37) % 3) as u32 };
                        instrs.push(Instr::New { asset: a, bid, vol: 1 + (j % 5) as u32, trader: 3, price: Some(price) });
                    }
                    steps.push(StepSpec { toggle: None, instrs });
                }
                Some(Case::Env(EnvCase { kind_assets: if market { 2 } else { 0 }, levels: 2, ticks: vec![2, 2], t0: 0, step_size: 10, trading: true, seed: k as u64 ^ crate::engine::verif_seed(), steps, drain: true, exact_vols: false, quiet_steps: 0 }))
            }),
            description: format!("runs of exactly k steps for k in {{255, 256, 257, 511, 512, 513, 1023, 1024, 1025, 2047, 2048, 2049, 4095, 4096, 4097}} (up to {}) x {{Env<2>, MarketEnv<2,2>}}, one new order every 37 steps and in each of the last three steps", max_k),
        },
    }
}

/// One price level holding EXACTLY n orders for n around 2^8 and 2^16 (order counts and level volumes that do not
/// fit 8 / 16 bits), on the touch or on the level behind it, submitted as one batch (step size n + 16): recorded
/// per-level counts and volumes are compared with the live book after the step, after a cancel and after a
/// partial sweep.
fn exhaustive_level_populations(name: &str, big: bool) -> Part<Case> {
    let ns: Vec<usize> = if big { vec![255, 256, 257, 65_535, 65_536, 65_537, 70_000, 131_071, 131_073] } else { vec![255, 256, 257, 65_535, 65_536, 65_537] };
    let total = ns.len() as u64 * 2 * 2 * 2;
    Part {
        name: name.to_string(),
        kind: PartKind::Exhaustive {
            total,
            decode: Box::new(move |i| {
                let market = i % 2 == 1;
                let bid = (i / 2) % 2 == 0;
                let behind = (i / 4) % 2 == 1;
                let n = ns[(i / 8) as usize];
                let a = if market { 1u8 } else { 0 };
                let (touch, second, opp) = if bid { (100u32, 98u32, 104u32) } else { (104, 106, 100) };
                let mut first = vec![
                    Instr::New { asset: a, bid: true, vol: 2, trader: 9, price: Some(96) },
                    Instr::New { asset: a, bid: false, vol: 3, trader: 9, price: Some(108) },
                    Instr::New { asset: a, bid: !bid, vol: 5, trader: 9, price: Some(opp) },
                    Instr::New { asset: a, bid, vol: 2, trader: 8, price: Some(touch) },
                ];
                let level = if behind { second } else { touch };
                for k in 0..n {
                    first.push(Instr::New { asset: a, bid, vol: 1, trader: (k % 7) as u32, price: Some(level) });
                }
                let steps = vec![
                    StepSpec { toggle: None, instrs: first },
                    StepSpec { toggle: None, instrs: vec![] },
                    // one of the level's orders is cancelled
                    StepSpec { toggle: None, instrs: vec![Instr::Cancel { asset: a, r: Ref { pref: 100 + 7, ix: 0 } }] },
                    // a crossing order sweeps part of the level
                    StepSpec { toggle: None, instrs: vec![Instr::New { asset: a, bid: !bid, vol: 40, trader: 5, price: Some(level) }] },
                    StepSpec { toggle: None, instrs: vec![] },
                ];
                Some(Case::Env(EnvCase { kind_assets: if market { 2 } else { 0 }, levels: 3, ticks: vec![2, 2], t0: 3, step_size: n as u64 + 16, trading: true, seed: n as u64 ^ crate::engine::verif_seed(), steps, drain: true, exact_vols: false, quiet_steps: 0 }))
            }),
            description: format!("one price level (the touch or the level behind it) holding exactly n orders for n in {:?} x side x {{Env<3>, second asset of MarketEnv<2,3>}}, submitted as one batch in a step of n + 16 time units; then an empty step, a cancel of one of them, a crossing order that sweeps 40 of them, an empty step and the draining steps", if big { "{255, 256, 257, 65535, 65536, 65537, 70000, 131071, 131073}" } else { "{255, 256, 257, 65535, 65536, 65537}" }),
        },
    }
}

pub fn parts(id: &'static str, tier: Tier) -> Option<(Vec<Part<Case>>, String)> {
    let common = "An environment case is a seed, a configuration (Env<L> for L in 1..24 or MarketEnv<A,L> for A in 1..4; tick sizes 1..10; step size) and a sequence of steps, each a batch of new-order / cancel / modify instructions whose order references are resolved at submission time (including orders created in the same batch), followed by two draining steps. ";
    match id {
        "C08" => {
            let c = EnvGenCfg::base();
            let mut single = c.clone();
            single.kinds = 0;
            let mut multi = c.clone();
            multi.kinds = 1;
            let mut tog = c.clone();
            tog.toggle_pct = 15;
            tog.start_off_pct = 20;
            let mut long = c.clone();
            long.max_steps = 30;
            long.max_batch = 4;
            long.large_batch_pct = 0;
            Some((
                vec![exhaustive_batch_sizes("exhaustive-batch-sizes", false, tier.pick(2, 8)), env_part("env-random-large-volumes", big_vol_cfg(&c, 16), tier.pick(6_000, 150_000)), env_part("env-random-long-runs", long, tier.pick(2_500, 60_000)), exhaustive_env_part("exhaustive-batches-of-2", 2, tier.pick(24, 64), false), exhaustive_env_part("exhaustive-batches-of-3", 3, tier.pick(4, 24), false), env_part("env-random-single", single, tier.pick(20_000, 600_000)), env_part("env-random-multi", multi, tier.pick(12_000, 300_000)), env_part("env-random-toggles", tog, tier.pick(8_000, 200_000))],
                format!("{}Oracle: after every step the set of processing orders consistent with everything observed so far (new orders pinned to position arrival-start, all arrangements of the other instructions) is replayed on REAL plain OrderBooks and must be non-empty, i.e. some permutation of the batch explains the environment's orders, trades and views exactly; plus clock = start+step size, per-step traded volume = that step's trades, empty steps change nothing. Non-trivial: at least one batch whose outcome depends on the processing order (measured by replaying the reversed order on the plain book).", common),
            ))
        }
        "C14" => {
            let mut c = EnvGenCfg::base();
            c.kinds = 1;
            c.toggle_pct = 5;
            let mut long = c.clone();
            long.max_steps = 24;
            long.max_batch = 4;
            long.large_batch_pct = 0;
            Some((vec![exhaustive_batch_sizes("exhaustive-batch-sizes", false, tier.pick(1, 4)), env_part("marketenv-random-long-runs", long, tier.pick(2_000, 50_000)), exhaustive_env_part("exhaustive-batches-of-2", 2, tier.pick(16, 64), false), exhaustive_env_part("exhaustive-batches-of-3", 3, tier.pick(2, 16), false), env_part("marketenv-random", c, tier.pick(12_000, 300_000))], format!("{}MarketEnv cases: schedule inference as in C08 with an array of stand-alone real books as reference, each asset's instructions replayed on its own book at the candidate's global times. Non-trivial: >= 2 assets with resting orders and an order-sensitive batch.", common)))
        }
        "C10" => {
            let mut c = EnvGenCfg::base();
            c.toggle_pct = 5;
            c.large_batch_pct = 0;
            let mut long = c.clone();
            long.max_steps = 80;
            long.max_batch = 5;
            Some((
                vec![exhaustive_step_counts("exhaustive-step-counts", tier.pick(1025, 4097)), exhaustive_batch_sizes("exhaustive-batch-sizes", false, 1), env_part("env-random-large-volumes", big_vol_cfg(&c, 24), tier.pick(15_000, 300_000)), env_part("env-random-long-runs", long, tier.pick(4_000, 100_000)), exhaustive_env_part("exhaustive-batches-of-3", 3, tier.pick(4, 24), false), env_part("env-random-submissions", c, tier.pick(150_000, 2_000_000))],
                format!("{}Oracle: the complete observable state of the environment (live book snapshot per asset, every recorded series, cached level-2) is compared before and after EVERY submission and must be identical except for exactly one appended order record with status New; the cached level-2 must equal the live book's level-2 after construction, after every submission and after every step. Non-trivial: a submission that would trade or move the touch if applied directly, against a non-empty book.", common),
            ))
        }
        "C11" => {
            let mut c = EnvGenCfg::base();
            c.large_batch_pct = 0;
            c.w_new = 75;
            let mut long = c.clone();
            long.max_steps = 120;
            long.max_batch = 5;
            let mut longer = c.clone();
            longer.max_steps = 400;
            longer.max_batch = 3;
            longer.drain = true;
            // trading toggled between steps (C08's domain includes it): crossed books, re-queues that trade after re-enabling
            let mut tog = c.clone();
            tog.toggle_pct = 25;
            tog.start_off_pct = 25;
            tog.w_modify = 40;
            tog.w_new = 50;
            tog.max_batch = 6;
            Some((
 vec![exhaustive_level_populations("exhaustive-level-populations", tier != Tier::Quick), exhaustive_step_counts("exhaustive-step-counts", tier.pick(2049, 4097)), exhaustive_batch_sizes("exhaustive-batch-sizes", false, tier.pick(1, 4)), env_part("env-random-toggles", tog, tier.pick(40_000, 600_000)), env_part("env-random-large-volumes", big_vol_cfg(&c, 24), tier.pick(15_000, 300_000)), env_part("env-random-very-long-runs", longer, tier.pick(600, 12_000)), env_part("env-random-long-runs", long, tier.pick(5_000, 120_000)), exhaustive_env_part("exhaustive-batches-of-3", 3, tier.pick(4, 24), false), env_part("env-random-records", c, tier.pick(200_000, 3_000_000))],
                format!("{}Oracle: after step k every recorded series (touch prices, side volumes, touch volumes and counts, per-level volumes and counts for each of the L levels, per-step traded volume) has exactly k entries, entry k-1 equals the value read from the live book after the step (bid series vs bid getters), earlier entries are unchanged, and traded volume k-1 equals both the volume logged during the step and the volume of trades time-stamped within it. Non-trivial: a step whose book differs between bid and ask in total volume, touch volume and touch count and has an occupied level >= 1 on both sides.", common),
            ))
        }
        "C12" => {
            let mut c = EnvGenCfg::base();
            c.offgrid = true;
            c.large_batch_pct = 0;
            Some((vec![env_part("env-random-arbitrary-prices", c, tier.pick(15_000, 400_000))], format!("{}Environment cases: creations with arbitrary prices through Env / MarketEnv: Err iff off-grid, a rejected creation leaves the whole environment unchanged and queues nothing (a twin environment with the same seed that never received the rejected calls stays identical through all following steps).", common)))
        }
        "C13" => {
            let mut c = EnvGenCfg::base();
            c.toggle_pct = 30;
            c.start_off_pct = 30;
            c.large_batch_pct = 0;
            c.market_pct = 25;
            Some((vec![exhaustive_env_part("exhaustive-batches-of-2-while-disabled", 2, tier.pick(8, 32), true), env_part("env-random-toggles", c, tier.pick(15_000, 400_000))], format!("{}Environment cases: trading toggled between steps: no trade is logged during a step processed while disabled, market orders processed then are rejected.", common)))
        }
        "C05" => {
            let mut c = EnvGenCfg::base();
            c.overfull = true;
            c.max_steps = 6;
            c.large_batch_pct = 0;
            let mut big = c.clone();
            big.large_batch_pct = 100;
            big.max_steps = 3;
            Some((
                vec![exhaustive_batch_sizes("exhaustive-overfull-batch-sizes", true, tier.pick(1, 4)), env_part("env-overfull-large-batches", big, tier.pick(1_500, 40_000)), env_part("env-overfull-steps", c, tier.pick(12_000, 400_000))],
                format!("{}Overfull cases: step size 1..4 with up to 4x as many instructions per step, several consecutive steps, so intra-step timestamps run into the next step; plus overfull large batches (33..64 instructions in a step of 8..16 time units, Env and MarketEnv<1..4>). Oracle: C08's schedule inference against real plain books replayed with the same (partly repeating) times, model-free view / ledger audits after every step, and after the final drain no resting order may remain (every order is executed). Non-trivial: an overfull step and at least one trade.", common),
            ))
        }
        _ => None,
    }
}
