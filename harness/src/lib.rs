//! Property-based verification harness for zombie-einstein/bourse (see /verif/DESIGN.md).
pub mod checks;
pub mod decode;
pub mod dynbook;
pub mod engine;
pub mod envcase;
pub mod envs;
pub mod gen;
pub mod market;
pub mod model;
pub mod obs;
pub mod oracle;
pub mod ops;
