//! Object-safe facade over `Env<L>` and `MarketEnv<A, L>`.

use crate::dynbook::{l2_of, order_rec, side_of, trade_rec, DynBook, L2};
use crate::model::{OrderRec, St, TradeRec};
use bourse_de::{Env, MarketEnv};
use rand::RngCore;

#[derive(Clone, Debug, PartialEq, Eq, Default)]
pub struct Series {
    pub prices: (Vec<u32>, Vec<u32>),
    pub volumes: (Vec<u32>, Vec<u32>),
    pub touch_volumes: (Vec<u32>, Vec<u32>),
    pub touch_counts: (Vec<u32>, Vec<u32>),
    /// per level: bid volumes, bid counts, ask volumes, ask counts
    pub level_bid_vols: Vec<Vec<u32>>,
    pub level_bid_counts: Vec<Vec<u32>>,
    pub level_ask_vols: Vec<Vec<u32>>,
    pub level_ask_counts: Vec<Vec<u32>>,
    pub trade_vols: Vec<u32>,
}

pub trait DynEnv {
    /// 0 for the single-asset `Env`, else the number of assets of a `MarketEnv`
    fn kind_assets(&self) -> usize;
    fn assets(&self) -> usize {
        self.kind_assets().max(1)
    }
    fn levels(&self) -> usize;
    fn step(&mut self, rng: &mut dyn RngCore);
    fn enable_trading(&mut self);
    fn disable_trading(&mut self);
    fn place_order(&mut self, a: usize, bid: bool, vol: u32, trader: u32, price: Option<u32>) -> Result<(usize, usize), String>;
    fn cancel_order(&mut self, id: (usize, usize));
    fn modify_order(&mut self, id: (usize, usize), price: Option<u32>, vol: Option<u32>);
    fn book(&self, a: usize) -> &dyn DynBook;
    fn time(&self) -> u64 {
        self.book(0).get_time()
    }
    fn series(&self, a: usize) -> Series;
    fn cached_l2(&self, a: usize) -> L2;
    fn get_orders(&self, a: usize) -> Vec<OrderRec>;
    fn get_trades(&self, a: usize) -> Vec<TradeRec>;
    fn order(&self, id: (usize, usize)) -> OrderRec;
    fn order_status(&self, id: (usize, usize)) -> St;
}

/// Conversions that tolerate source-compatible changes of the environment's getters and of the public record
/// fields (another integer width, owned instead of borrowed vectors): a value that does not fit u32 becomes
/// u32::MAX, which no recorded quantity of a valid history equals.
pub trait ToU32s {
    fn to_u32s(&self) -> Vec<u32>;
}
impl<T: Copy + TryInto<u32>> ToU32s for Vec<T> {
    fn to_u32s(&self) -> Vec<u32> {
        self.iter().map(|x| (*x).try_into().unwrap_or(u32::MAX)).collect()
    }
}
impl<T: Copy + TryInto<u32>> ToU32s for [T] {
    fn to_u32s(&self) -> Vec<u32> {
        self.iter().map(|x| (*x).try_into().unwrap_or(u32::MAX)).collect()
    }
}
impl<X: ToU32s + ?Sized> ToU32s for &X {
    fn to_u32s(&self) -> Vec<u32> {
        (**self).to_u32s()
    }
}
pub trait ToU32Pair {
    fn to_pair(&self) -> (Vec<u32>, Vec<u32>);
}
impl<A: ToU32s, B: ToU32s> ToU32Pair for (A, B) {
    fn to_pair(&self) -> (Vec<u32>, Vec<u32>) {
        (self.0.to_u32s(), self.1.to_u32s())
    }
}
impl<P: ToU32Pair> ToU32Pair for &P {
    fn to_pair(&self) -> (Vec<u32>, Vec<u32>) {
        (**self).to_pair()
    }
}
fn per_level<V: ToU32s>(levels: &[V]) -> Vec<Vec<u32>> {
    levels.iter().map(|v| v.to_u32s()).collect()
}

fn series_of<const L: usize>(prices: impl ToU32Pair, volumes: impl ToU32Pair, tv: impl ToU32Pair, tc: impl ToU32Pair, rec: &bourse_de::Level2DataRecords<L>, trade_vols: impl ToU32s) -> Series {
    Series {
        prices: prices.to_pair(),
        volumes: volumes.to_pair(),
        touch_volumes: tv.to_pair(),
        touch_counts: tc.to_pair(),
        level_bid_vols: per_level(&rec.volumes_at_levels.0),
        level_bid_counts: per_level(&rec.orders_at_levels.0),
        level_ask_vols: per_level(&rec.volumes_at_levels.1),
        level_ask_counts: per_level(&rec.orders_at_levels.1),
        trade_vols: trade_vols.to_u32s(),
    }
}

impl<const L: usize> DynEnv for Env<L> {
    fn kind_assets(&self) -> usize {
        0
    }
    fn levels(&self) -> usize {
        L
    }
    fn step(&mut self, rng: &mut dyn RngCore) {
        let mut r = rng;
        let _ = Env::step(self, &mut r);
    }
    fn enable_trading(&mut self) {
        let _ = Env::enable_trading(self);
    }
    fn disable_trading(&mut self) {
        let _ = Env::disable_trading(self);
    }
    fn place_order(&mut self, _a: usize, bid: bool, vol: u32, trader: u32, price: Option<u32>) -> Result<(usize, usize), String> {
        Env::place_order(self, side_of(bid), vol, trader, price).map(|i| (0, i)).map_err(|e| e.to_string())
    }
    fn cancel_order(&mut self, id: (usize, usize)) {
        let _ = Env::cancel_order(self, id.1);
    }
    fn modify_order(&mut self, id: (usize, usize), price: Option<u32>, vol: Option<u32>) {
        let _ = Env::modify_order(self, id.1, price, vol);
    }
    fn book(&self, _a: usize) -> &dyn DynBook {
        self.get_orderbook()
    }
    fn series(&self, _a: usize) -> Series {
        series_of(self.get_prices(), self.get_volumes(), self.get_touch_volumes(), self.get_touch_order_counts(), self.get_level_2_data_history(), self.get_trade_vols())
    }
    fn cached_l2(&self, _a: usize) -> L2 {
        l2_of(self.level_2_data())
    }
    fn get_orders(&self, _a: usize) -> Vec<OrderRec> {
        Env::get_orders(self).into_iter().map(order_rec).collect()
    }
    fn get_trades(&self, _a: usize) -> Vec<TradeRec> {
        Env::get_trades(self).iter().map(trade_rec).collect()
    }
    fn order(&self, id: (usize, usize)) -> OrderRec {
        order_rec(Env::order(self, id.1))
    }
    fn order_status(&self, id: (usize, usize)) -> St {
        crate::dynbook::st_of(Env::order_status(self, id.1))
    }
}

impl<const A: usize, const L: usize> DynEnv for MarketEnv<A, L> {
    fn kind_assets(&self) -> usize {
        A
    }
    fn levels(&self) -> usize {
        L
    }
    fn step(&mut self, rng: &mut dyn RngCore) {
        let mut r = rng;
        let _ = MarketEnv::step(self, &mut r);
    }
    fn enable_trading(&mut self) {
        let _ = MarketEnv::enable_trading(self);
    }
    fn disable_trading(&mut self) {
        let _ = MarketEnv::disable_trading(self);
    }
    fn place_order(&mut self, a: usize, bid: bool, vol: u32, trader: u32, price: Option<u32>) -> Result<(usize, usize), String> {
        MarketEnv::place_order(self, a, side_of(bid), vol, trader, price).map_err(|e| e.to_string())
    }
    fn cancel_order(&mut self, id: (usize, usize)) {
        let _ = MarketEnv::cancel_order(self, id);
    }
    fn modify_order(&mut self, id: (usize, usize), price: Option<u32>, vol: Option<u32>) {
        let _ = MarketEnv::modify_order(self, id, price, vol);
    }
    fn book(&self, a: usize) -> &dyn DynBook {
        self.get_market().get_order_book(a)
    }
    fn series(&self, a: usize) -> Series {
        series_of(self.get_prices(a), self.get_volumes(a), self.get_touch_volumes(a), self.get_touch_order_counts(a), self.get_level_2_data_history(a), self.get_trade_vols(a))
    }
    fn cached_l2(&self, a: usize) -> L2 {
        l2_of(&self.level_2_data()[a])
    }
    fn get_orders(&self, a: usize) -> Vec<OrderRec> {
        MarketEnv::get_orders(self, a).into_iter().map(order_rec).collect()
    }
    fn get_trades(&self, a: usize) -> Vec<TradeRec> {
        MarketEnv::get_trades(self, a).iter().map(trade_rec).collect()
    }
    fn order(&self, id: (usize, usize)) -> OrderRec {
        order_rec(MarketEnv::order(self, id))
    }
    fn order_status(&self, id: (usize, usize)) -> St {
        crate::dynbook::st_of(MarketEnv::order_status(self, id))
    }
}

fn mk_env<const L: usize>(t: u64, tick: u32, step: u64, trading: bool) -> Box<dyn DynEnv> {
    Box::new(Env::<L>::new(t, tick, step, trading))
}

fn mk_menv<const A: usize, const L: usize>(t: u64, ticks: &[u32], step: u64, trading: bool) -> Box<dyn DynEnv> {
    let mut tk = [1u32; A];
    tk.copy_from_slice(&ticks[..A]);
    Box::new(MarketEnv::<A, L>::new(t, tk, step, trading))
}

/// `kind_assets` 0 = `Env<levels>`, 1..=4 = `MarketEnv<kind_assets, levels>` (levels from MARKET_LEVELS)
pub fn new_env(kind_assets: usize, levels: usize, t: u64, ticks: &[u32], step: u64, trading: bool) -> Box<dyn DynEnv> {
    if kind_assets == 0 {
        use crate::dynbook::by_levels;
        by_levels!(levels, mk_env, t, ticks[0], step, trading)
    } else {
        use crate::market::by_al;
        by_al!(kind_assets, levels, mk_menv, t, ticks, step, trading)
    }
}
