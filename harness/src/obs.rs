//! Complete observable snapshot of a book and recomputation of every market-data view from the
//! order list alone (the C02 oracle).

use crate::dynbook::{DynBook, L1, L2};
use crate::model::{ModelBook, OrderRec, St, TradeRec};

#[derive(Clone, Debug, PartialEq, Eq)]
pub struct Views {
    pub bid_ask: (u32, u32),
    pub bid_vol: u32,
    pub ask_vol: u32,
    pub bid_best_vol: u32,
    pub ask_best_vol: u32,
    pub bid_best_vo: (u32, u32),
    pub ask_best_vo: (u32, u32),
    pub bid_levels: Vec<(u32, u32)>,
    pub ask_levels: Vec<(u32, u32)>,
    pub l1: L1,
    pub l2: L2,
    /// bit pattern of mid_price()
    pub mid_bits: u64,
}

#[derive(Clone, Debug, PartialEq, Eq)]
pub struct Obs {
    pub time: u64,
    pub trade_vol: u32,
    pub orders: Vec<OrderRec>,
    pub trades: Vec<TradeRec>,
    pub views: Views,
}

pub fn capture_views(b: &dyn DynBook) -> Views {
    Views {
        bid_ask: b.bid_ask(),
        bid_vol: b.bid_vol(),
        ask_vol: b.ask_vol(),
        bid_best_vol: b.bid_best_vol(),
        ask_best_vol: b.ask_best_vol(),
        bid_best_vo: b.bid_best_vol_and_orders(),
        ask_best_vo: b.ask_best_vol_and_orders(),
        bid_levels: b.bid_levels(),
        ask_levels: b.ask_levels(),
        l1: b.level_1_data(),
        l2: b.level_2_data(),
        mid_bits: b.mid_price().to_bits(),
    }
}

pub fn capture(b: &dyn DynBook) -> Obs {
    Obs {
        time: b.get_time(),
        trade_vol: b.get_trade_vol(),
        orders: b.orders(),
        trades: b.trades(),
        views: capture_views(b),
    }
}

/// Every market-data view derived from the order list alone.
/// Active orders grouped by side and price; empty-side sentinels 0 / u32::MAX; level i is the
/// price `touch -/+ i*tick` when that price exists in 0..=u32::MAX, else (0,0).
pub fn recompute_views(orders: &[OrderRec], tick: u32, levels: usize) -> Views {
    let mut bid_vol: u64 = 0;
    let mut ask_vol: u64 = 0;
    let mut best_bid: Option<u32> = None;
    let mut best_ask: Option<u32> = None;
    for o in orders.iter().filter(|o| o.status == St::Active) {
        if o.bid {
            bid_vol += o.vol as u64;
            best_bid = Some(best_bid.map_or(o.price, |b| b.max(o.price)));
        } else {
            ask_vol += o.vol as u64;
            best_ask = Some(best_ask.map_or(o.price, |a| a.min(o.price)));
        }
    }
    let at = |bid: bool, price: u32| -> (u32, u32) {
        let mut v: u64 = 0;
        let mut n: u32 = 0;
        for o in orders.iter() {
            if o.status == St::Active && o.bid == bid && o.price == price {
                v += o.vol as u64;
                n += 1;
            }
        }
        (v as u32, n)
    };
    let bid_price = best_bid.unwrap_or(0);
    let ask_price = best_ask.unwrap_or(u32::MAX);
    let mut bid_levels = Vec::with_capacity(levels);
    let mut ask_levels = Vec::with_capacity(levels);
    for i in 0..levels as u64 {
        let off = i * tick as u64;
        let bl = match best_bid {
            Some(b) if (b as u64) >= off => at(true, (b as u64 - off) as u32),
            _ => (0, 0),
        };
        let al = match best_ask {
            Some(a) if (a as u64) + off <= u32::MAX as u64 => at(false, (a as u64 + off) as u32),
            _ => (0, 0),
        };
        bid_levels.push(bl);
        ask_levels.push(al);
    }
    let bid_best_vo = best_bid.map_or((0, 0), |b| at(true, b));
    let ask_best_vo = best_ask.map_or((0, 0), |a| at(false, a));
    let mid = (bid_price as f64 + ask_price as f64) / 2.0;
    Views {
        bid_ask: (bid_price, ask_price),
        bid_vol: bid_vol as u32,
        ask_vol: ask_vol as u32,
        bid_best_vol: bid_best_vo.0,
        ask_best_vol: ask_best_vo.0,
        bid_best_vo,
        ask_best_vo,
        bid_levels: bid_levels.clone(),
        ask_levels: ask_levels.clone(),
        l1: [
            bid_price,
            ask_price,
            bid_vol as u32,
            ask_vol as u32,
            bid_best_vo.0,
            ask_best_vo.0,
            bid_best_vo.1,
            ask_best_vo.1,
        ],
        l2: L2 {
            bid_price,
            ask_price,
            bid_vol: bid_vol as u32,
            ask_vol: ask_vol as u32,
            bid_levels,
            ask_levels,
        },
        mid_bits: mid.to_bits(),
    }
}

/// First difference between two view sets, as text.
pub fn diff_views(got: &Views, want: &Views) -> Option<String> {
    macro_rules! cmp {
        ($f:ident) => {
            if got.$f != want.$f {
                return Some(format!("{}: got {:?}, expected {:?}", stringify!($f), got.$f, want.$f));
            }
        };
    }
    cmp!(bid_ask);
    cmp!(bid_vol);
    cmp!(ask_vol);
    cmp!(bid_best_vol);
    cmp!(ask_best_vol);
    cmp!(bid_best_vo);
    cmp!(ask_best_vo);
    cmp!(bid_levels);
    cmp!(ask_levels);
    cmp!(l1);
    cmp!(l2);
    if got.mid_bits != want.mid_bits {
        return Some(format!(
            "mid_price: got {}, expected {}",
            f64::from_bits(got.mid_bits),
            f64::from_bits(want.mid_bits)
        ));
    }
    None
}

/// Order records equal on what the properties specify: arrival time is unspecified while New,
/// the value of end time is unspecified until a terminal status.
pub fn order_eq_masked(a: &OrderRec, b: &OrderRec) -> bool {
    a.bid == b.bid
        && a.status == b.status
        && a.vol == b.vol
        && a.start_vol == b.start_vol
        && a.price == b.price
        && a.trader == b.trader
        && a.id == b.id
        && (a.status == St::New || a.arr_time == b.arr_time)
        && (!a.status.terminal() || a.end_time == b.end_time)
}

/// Compare the real book's observables with the reference model. Returns the first difference.
pub fn diff_model(real: &Obs, m: &ModelBook, levels: usize) -> Option<String> {
    if real.time != m.t {
        return Some(format!("time: got {}, model {}", real.time, m.t));
    }
    if real.orders.len() != m.orders.len() {
        return Some(format!("order count: got {}, model {}", real.orders.len(), m.orders.len()));
    }
    for (a, b) in real.orders.iter().zip(m.orders.iter()) {
        if !order_eq_masked(a, &b.rec) {
            return Some(format!("order {}: got {:?}, model {:?}", a.id, a, b.rec));
        }
    }
    if real.trades.len() != m.trades.len() {
        let k = real.trades.len().min(m.trades.len());
        return Some(format!(
            "trade count: got {}, model {}; first extra: got {:?} model {:?}",
            real.trades.len(),
            m.trades.len(),
            real.trades.get(k),
            m.trades.get(k)
        ));
    }
    for (k, (a, b)) in real.trades.iter().zip(m.trades.iter()).enumerate() {
        if a != b {
            return Some(format!("trade {}: got {:?}, model {:?}", k, a, b));
        }
    }
    if real.trade_vol as u64 != m.trade_vol {
        return Some(format!("trade_vol: got {}, model {}", real.trade_vol, m.trade_vol));
    }
    let want = recompute_views(&m.order_recs(), m.tick, levels);
    if let Some(d) = diff_views(&real.views, &want) {
        return Some(format!("view {}", d));
    }
    None
}

/// First difference between two full snapshots (exact, nothing masked).
pub fn diff_obs(a: &Obs, b: &Obs) -> Option<String> {
    if a.time != b.time {
        return Some(format!("time: {} vs {}", a.time, b.time));
    }
    if a.trade_vol != b.trade_vol {
        return Some(format!("trade_vol: {} vs {}", a.trade_vol, b.trade_vol));
    }
    if a.orders.len() != b.orders.len() {
        return Some(format!("order count: {} vs {}", a.orders.len(), b.orders.len()));
    }
    for (x, y) in a.orders.iter().zip(b.orders.iter()) {
        if x != y {
            return Some(format!("order {}: {:?} vs {:?}", x.id, x, y));
        }
    }
    if a.trades.len() != b.trades.len() {
        return Some(format!("trade count: {} vs {}", a.trades.len(), b.trades.len()));
    }
    for (k, (x, y)) in a.trades.iter().zip(b.trades.iter()).enumerate() {
        if x != y {
            return Some(format!("trade {}: {:?} vs {:?}", k, x, y));
        }
    }
    diff_views(&a.views, &b.views).map(|d| format!("view {}", d))
}
