//! Step-environment histories and their interpreter: schedule inference against real plain books
//! (C08, C14, C05b), invisibility of queued instructions (C10), recorded histories (C11), grid
//! (C12), trading flag (C13).

use crate::dynbook::{new_book, DynBook, Ev};
use crate::envs::{new_env, DynEnv, Series};
use crate::model::{OrderRec, St};
use crate::obs::{capture, diff_obs, diff_views, recompute_views, Obs};
use crate::ops::{Failure, Ref};
use rand::SeedableRng;
use rand_xoshiro::Xoroshiro128StarStar;
use serde::{Deserialize, Serialize};

#[derive(Clone, Debug, PartialEq, Eq, Hash, Serialize, Deserialize)]
pub enum Instr {
    New { asset: u8, bid: bool, vol: u32, trader: u32, price: Option<u32> },
    Cancel { asset: u8, r: Ref },
    Modify { asset: u8, r: Ref, price: Option<u32>, vol: Option<u32> },
    /// modification stated relative to the order's record at submission: the current price restated (or no
    /// price), the current volume plus `dvol` (or no volume)
    ModifyCur { asset: u8, r: Ref, restate_price: bool, dvol: Option<i8> },
}

#[derive(Clone, Debug, PartialEq, Eq, Hash, Serialize, Deserialize)]
pub struct StepSpec {
    /// trading toggle applied before the submissions of this step
    pub toggle: Option<bool>,
    pub instrs: Vec<Instr>,
}

#[derive(Clone, Debug, PartialEq, Eq, Hash, Serialize, Deserialize)]
pub struct EnvCase {
    /// 0 = Env<levels>; 1..=4 = MarketEnv<assets, levels>
    pub kind_assets: u8,
    pub levels: usize,
    pub ticks: Vec<u32>,
    pub t0: u64,
    pub step_size: u64,
    pub trading: bool,
    pub seed: u64,
    pub steps: Vec<StepSpec>,
    /// append two draining steps (market sell / market buy for the whole opposite volume)
    pub drain: bool,
    /// bit (k mod 64) set: step k is QUIET - no getter of the environment or of its live books is called around
    /// its submissions or after it, except the order / trade lists and the clock (needed to resolve references
    /// and to infer the schedule); state that a read would refresh stays as the step left it
    #[serde(default)]
    pub quiet_steps: u64,
    /// large volumes with exact accounting: at most one volume-adding instruction per step (so what it will
    /// trade is known at submission), volumes bounded by what rests / was traded, not by what was ever created
    #[serde(default)]
    pub exact_vols: bool,
}

#[derive(Clone, Copy, Debug, Default)]
pub struct EnvOracles {
    /// set of consistent schedules against real plain books (C08; C14 for MarketEnv)
    pub schedule: bool,
    /// queued instructions invisible until the step; cached level-2 equals live (C10)
    pub invisible: bool,
    /// recorded series complete, aligned, faithful (C11)
    pub records: bool,
    /// creation iff-rule and no trace, via a twin environment (C12)
    pub grid: bool,
    /// no trade while disabled, market orders rejected (C13)
    pub trading: bool,
    /// model-free audits after every step and all-filled after the drain (C05b)
    pub audits: bool,
}

#[derive(Clone, Debug, Default)]
pub struct EnvFeatures {
    pub quiet_steps: u64,
    pub steps: u64,
    pub instructions: u64,
    pub skipped_instr: u64,
    pub empty_steps: u64,
    pub overfull_steps: u64,
    /// batches of exactly step-size instructions
    pub full_steps: u64,
    pub max_batch: usize,
    pub order_sensitive_batches: u64,
    pub same_order_multi_instr: u64,
    pub same_batch_target: u64,
    pub unpinned_max: usize,
    pub candidates_max: usize,
    pub multi_candidate_steps: u64,
    pub rebuilds: u64,
    pub inconclusive: bool,
    pub trades: u64,
    pub would_trade_submissions: u64,
    pub asym_steps: u64,
    pub offgrid_rejected: u64,
    pub offgrid_nonempty: bool,
    pub crossed_while_off: bool,
    pub traded_after_reenable: bool,
    pub toggles: u64,
    pub assets_active: usize,
    pub cross_step_ts_collision: bool,
}

/// concrete instruction of a batch
#[derive(Clone, Debug)]
struct PInstr {
    asset: usize,
    ev: Ev,
    is_new: bool,
}

#[derive(Clone, Debug)]
struct Batch {
    start: u64,
    toggle: Option<bool>,
    creates: Vec<(usize, bool, u32, u32, Option<u32>)>,
    instrs: Vec<PInstr>,
}

#[derive(Clone, Debug, PartialEq)]
struct EnvObs {
    books: Vec<Obs>,
    series: Vec<Series>,
    cached: Vec<crate::dynbook::L2>,
}

fn env_obs(e: &dyn DynEnv) -> EnvObs {
    let n = e.assets();
    EnvObs { books: (0..n).map(|a| capture(e.book(a))).collect(), series: (0..n).map(|a| e.series(a)).collect(), cached: (0..n).map(|a| e.cached_l2(a)).collect() }
}

struct Ctx<'a> {
    case: &'a EnvCase,
    n: usize,
}

impl<'a> Ctx<'a> {
    /// Replay the whole history on fresh real plain books under the given per-step orders.
    fn rebuild(&self, hist: &[Batch], perms: &[&Vec<usize>]) -> Vec<Box<dyn DynBook>> {
        let c = self.case;
        let mut books: Vec<Box<dyn DynBook>> = (0..self.n).map(|a| new_book(c.levels, c.t0, c.ticks[a], c.trading)).collect();
        for (b, perm) in hist.iter().zip(perms.iter()) {
            if let Some(on) = b.toggle {
                for bk in books.iter_mut() {
                    if on {
                        bk.enable_trading()
                    } else {
                        bk.disable_trading()
                    }
                }
            }
            for (a, bid, vol, trader, price) in b.creates.iter() {
                let _ = books[*a].create_order(*bid, *vol, *trader, *price);
            }
            for bk in books.iter_mut() {
                bk.reset_trade_vol();
            }
            for (i, &k) in perm.iter().enumerate() {
                for bk in books.iter_mut() {
                    bk.set_time(b.start + i as u64);
                }
                let ins = &b.instrs[k];
                books[ins.asset].process_event(&ins.ev);
            }
            for bk in books.iter_mut() {
                bk.set_time(b.start + c.step_size);
            }
        }
        books
    }

    /// Hidden queue order of a rebuilt copy, read from the real book by draining it.
    fn drain_signature(&self, mut books: Vec<Box<dyn DynBook>>) -> Vec<Vec<usize>> {
        let mut sig = vec![];
        for bk in books.iter_mut() {
            bk.enable_trading();
            let t = bk.get_time();
            bk.set_time(t + 1);
            let n0 = bk.n_trades();
            // (each drain may trade a whole side: restart the traded-volume counter first)
            bk.reset_trade_vol();
            let bv = bk.bid_vol();
            if bv > 0 {
                let _ = bk.create_and_place_order(false, bv, 0, None);
            }
            let av = bk.ask_vol();
            if av > 0 {
                // (the two drains together may trade more than 2^32: restart the counter in between)
                bk.reset_trade_vol();
                let _ = bk.create_and_place_order(true, av, 0, None);
            }
            sig.push(bk.trades_from(n0).iter().map(|t| t.passive).collect());
        }
        sig
    }
}

fn resolve(orders: &[OrderRec], r: Ref) -> Option<usize> {
    if orders.is_empty() {
        return None;
    }
    if r.pref >= 100 {
        let id = (r.pref - 100) as usize + r.ix as usize;
        return if id < orders.len() { Some(id) } else { None };
    }
    let want = match r.pref {
        1 => Some(St::New),
        2 => Some(St::Active),
        3 => Some(St::Filled),
        4 => Some(St::Cancelled),
        5 => Some(St::Rejected),
        _ => None,
    };
    if let Some(w) = want {
        let pool: Vec<usize> = orders.iter().filter(|o| o.status == w).map(|o| o.id).collect();
        if !pool.is_empty() {
            return Some(pool[(r.ix as usize * pool.len()) >> 16]);
        }
    }
    Some((r.ix as usize * orders.len()) >> 16)
}

/// all arrangements: `news` pinned at their positions, the others fill the free positions in every order
fn arrangements(n: usize, pinned: &[(usize, usize)], free_instrs: &[usize]) -> Vec<Vec<usize>> {
    let mut slots: Vec<Option<usize>> = vec![None; n];
    for (k, pos) in pinned {
        slots[*pos] = Some(*k);
    }
    let free_pos: Vec<usize> = (0..n).filter(|p| slots[*p].is_none()).collect();
    let mut out = vec![];
    let mut items = free_instrs.to_vec();
    permute(&mut items, 0, &mut |perm| {
        let mut s = slots.clone();
        for (p, k) in free_pos.iter().zip(perm.iter()) {
            s[*p] = Some(*k);
        }
        out.push(s.into_iter().map(|x| x.unwrap()).collect());
    });
    out
}

fn permute(items: &mut Vec<usize>, k: usize, f: &mut dyn FnMut(&[usize])) {
    if k == items.len() {
        f(items);
        return;
    }
    for i in k..items.len() {
        items.swap(k, i);
        permute(items, k + 1, f);
        items.swap(k, i);
    }
}

const MAX_UNPINNED: usize = 6;
const MAX_CANDS: usize = 96;

pub fn run_env_case(case: &EnvCase, orc: EnvOracles, prop: &str) -> (EnvFeatures, Result<(), Failure>) {
    let mut feat = EnvFeatures::default();
    let r = run_inner(case, orc, prop, &mut feat);
    (feat, r)
}

fn run_inner(case: &EnvCase, orc: EnvOracles, prop: &str, feat: &mut EnvFeatures) -> Result<(), Failure> {
    let n = (case.kind_assets as usize).max(1);
    let ctx = Ctx { case, n };
    let mut env = new_env(case.kind_assets as usize, case.levels, case.t0, &case.ticks, case.step_size, case.trading);
    let mut rng = Xoroshiro128StarStar::seed_from_u64(case.seed);
    // C12: twin environment that never receives a rejected creation
    let mut twin: Option<(Box<dyn DynEnv>, Xoroshiro128StarStar)> =
        if orc.grid { Some((new_env(case.kind_assets as usize, case.levels, case.t0, &case.ticks, case.step_size, case.trading), Xoroshiro128StarStar::seed_from_u64(case.seed))) } else { None };
    let mut hist: Vec<Batch> = vec![];
    let mut cands: Vec<Vec<Vec<usize>>> = vec![vec![]];
    let mut schedule_on = orc.schedule;
    let mut trading = case.trading;
    let mut crossed_off = false;
    let mut reenabled_after_cross = false;
    // once a step carried more instructions than time units (only the harness's own drain steps can, outside
    // C05's overfull cases), its timestamps run into the following steps' windows: window clauses are off
    let mut ever_overfull = false;
    let mut budget = vec![[u32::MAX as u64 - 1; 2]; n];
    let fail = |sig: &str, step: usize, msg: String| Failure::new(prop, sig, format!("step {}: {}", step, msg));

    // construction: cached level-2 equals the live book's
    if orc.invisible || orc.records {
        for a in 0..n {
            if env.cached_l2(a) != env.book(a).level_2_data() {
                return Err(fail("C10 cached level-2 differs from the live book at construction", 0, format!("asset {}", a)));
            }
            let s = env.series(a);
            if !s.prices.0.is_empty() || !s.trade_vols.is_empty() {
                return Err(fail("C11 recorded series not empty at construction", 0, format!("asset {}", a)));
            }
        }
    }

    let mut steps: Vec<StepSpec> = case.steps.clone();
    let n_core = steps.len();
    if case.drain {
        steps.push(StepSpec { toggle: Some(true), instrs: vec![] });
        steps.push(StepSpec { toggle: None, instrs: vec![] });
    }
    let total_instr: usize = steps.iter().map(|s| s.instrs.len()).sum::<usize>() + 8;
    let mut instr_seen = 0usize;

    let orc_all = orc;
    for (si, spec) in steps.iter().enumerate() {
        let is_drain = si >= n_core;
        let q = !is_drain && si + 1 < n_core && (case.quiet_steps >> (si % 64)) & 1 == 1;
        // a quiet step keeps only the schedule inference (it reads order / trade lists and the clock)
        let orc = if q { EnvOracles { schedule: orc_all.schedule, ..EnvOracles::default() } } else { orc_all };
        if q {
            feat.quiet_steps += 1;
        }
        let start = env.time();
        if let Some(on) = spec.toggle {
            if on {
                env.enable_trading()
            } else {
                env.disable_trading()
            }
            if let Some((t, _)) = twin.as_mut() {
                if on {
                    t.enable_trading()
                } else {
                    t.disable_trading()
                }
            }
            if on != trading {
                feat.toggles += 1;
                if on && crossed_off {
                    reenabled_after_cross = true;
                }
            }
            trading = on;
        }
        let mut batch = Batch { start, toggle: spec.toggle, creates: vec![], instrs: vec![] };
        let mut instrs: Vec<Instr> = spec.instrs.clone();
        if is_drain {
            // drain one side per step: market orders for the whole opposite resting volume
            for a in 0..n {
                let b = env.book(a);
                let (bv, av) = (b.bid_vol(), b.ask_vol());
                if si == n_core && bv > 0 {
                    instrs.push(Instr::New { asset: a as u8, bid: false, vol: bv, trader: 0xD8A1, price: None });
                }
                if si == n_core + 1 && av > 0 {
                    instrs.push(Instr::New { asset: a as u8, bid: true, vol: av, trader: 0xD8A1, price: None });
                }
            }
        }
        let mut targets_in_batch: Vec<(usize, usize)> = vec![];
        let mut unpinned = 0usize;
        // exact-volume cases: (asset, side) of the batch's volume-adding order, whose admissible volume took
        // credit for what it trades against on arrival
        let mut exact_new: Option<(usize, bool)> = None;
        let pre_step = if orc.invisible || orc.records { Some(env_obs(env.as_ref())) } else { None };
        // number of order records per asset: read once per step, then counted (every accepted creation must return
        // exactly the next per-asset id, so the count stays exact; reading the list per instruction is quadratic
        // in batches of tens of thousands)
        let mut n_orders: Vec<usize> = (0..n).map(|a| env.get_orders(a).len()).collect();
        for ins in instrs.iter() {
            instr_seen += 1;
            let before = if orc.invisible || orc.grid { Some(env_obs(env.as_ref())) } else { None };
            let mut appended: Option<(usize, OrderRec)> = None;
            match ins {
                Instr::New { asset, bid, vol, trader, price } => {
                    let a = (*asset as usize) % n;
                    let k = *bid as usize;
                    let price = &crate::ops::limit_price(*bid, *price, case.ticks[a]);
                    if case.exact_vols && !is_drain && !batch.instrs.is_empty() {
                        feat.skipped_instr += 1;
                        continue;
                    }
                    let v = if is_drain {
                        *vol
                    } else if case.exact_vols {
                        let orders = env.get_orders(a);
                        let tradable = match (trading, price) {
                            (true, Some(p)) if p % case.ticks[a] == 0 => crate::ops::tradable_now(&orders, *bid, *p),
                            _ => 0,
                        };
                        // the per-step counter restarts at the step; this is the step's only trading instruction
                        crate::ops::admissible_vol(&orders, 0, *bid, *vol, 0, tradable, price.is_some(), total_instr - instr_seen.min(total_instr), 1)
                    } else {
                        let avail = budget[a][k].saturating_sub((total_instr - instr_seen.min(total_instr)) as u64 + 4).max(1);
                        let v = ((*vol).max(1) as u64).min(avail);
                        budget[a][k] = budget[a][k].saturating_sub(v);
                        v as u32
                    };
                    if case.exact_vols && !is_drain {
                        exact_new = Some((a, *bid));
                    }
                    let on_grid = price.map_or(true, |p| p % case.ticks[a] == 0);
                    let n_before = n_orders[a];
                    let r = env.place_order(a, *bid, v, *trader, *price);
                    if r.is_ok() {
                        n_orders[a] += 1;
                    }
                    match r {
                        Ok(id) => {
                            if (orc.grid || orc.invisible) && !on_grid {
                                return Err(fail("C12 off-grid creation accepted by the environment", si, format!("{:?} -> {:?}", ins, id)));
                            }
                            if id != (a, n_before) {
                                return Err(fail("C12 creation id is not the next per-asset id", si, format!("{:?} -> {:?}, expected ({}, {})", ins, id, a, n_before)));
                            }
                            if let Some((t, _)) = twin.as_mut() {
                                let _ = t.place_order(a, *bid, v, *trader, *price);
                            }
                            batch.creates.push((a, *bid, v, *trader, *price));
                            batch.instrs.push(PInstr { asset: a, ev: Ev::New(id.1), is_new: true });
                            let sentinel = if *bid { u32::MAX } else { 0 };
                            appended = Some((a, OrderRec { bid: *bid, status: St::New, arr_time: start, end_time: u64::MAX, vol: v, start_vol: v, price: price.unwrap_or(sentinel), trader: *trader, id: id.1 }));
                        }
                        Err(e) => {
                            if (orc.grid || orc.invisible) && on_grid {
                                return Err(fail("C12 on-grid creation rejected by the environment", si, format!("{:?} -> {}", ins, e)));
                            }
                            feat.offgrid_rejected += 1;
                            if env.get_orders(a).iter().any(|o| o.status == St::Active) {
                                feat.offgrid_nonempty = true;
                            }
                            if orc.grid {
                                if env_obs(env.as_ref()) != *before.as_ref().unwrap() {
                                    return Err(fail("C12 rejected creation left a trace in the environment", si, format!("{:?}", ins)));
                                }
                            }
                        }
                    }
                }
                Instr::Cancel { asset, r } => {
                    let a = (*asset as usize) % n;
                    let orders = env.get_orders(a);
                    let Some(id) = resolve(&orders, *r) else {
                        feat.skipped_instr += 1;
                        continue;
                    };
                    if unpinned >= MAX_UNPINNED && orc.schedule {
                        feat.skipped_instr += 1;
                        continue;
                    }
                    // exact-volume cases: a cancel processed before this batch's new order must not remove volume
                    // the order was assumed to trade against (it would rest in full and could push its side past 2^32)
                    if let Some((na, nbid)) = exact_new {
                        if na == a && orders[id].bid != nbid {
                            feat.skipped_instr += 1;
                            continue;
                        }
                    }
                    unpinned += 1;
                    env.cancel_order((a, id));
                    if let Some((t, _)) = twin.as_mut() {
                        t.cancel_order((a, id));
                    }
                    if orders[id].status == St::New {
                        feat.same_batch_target += 1;
                    }
                    if targets_in_batch.contains(&(a, id)) {
                        feat.same_order_multi_instr += 1;
                    }
                    targets_in_batch.push((a, id));
                    batch.instrs.push(PInstr { asset: a, ev: Ev::Cancel(id), is_new: false });
                }
                Instr::Modify { .. } | Instr::ModifyCur { .. } => {
                    let (asset, r) = match ins {
                        Instr::Modify { asset, r, .. } | Instr::ModifyCur { asset, r, .. } => (asset, r),
                        _ => unreachable!(),
                    };
                    let a = (*asset as usize) % n;
                    let orders = env.get_orders(a);
                    let Some(id) = resolve(&orders, *r) else {
                        feat.skipped_instr += 1;
                        continue;
                    };
                    let (price, vol): (Option<u32>, Option<u32>) = match ins {
                        Instr::Modify { price, vol, .. } => (*price, *vol),
                        Instr::ModifyCur { restate_price, dvol, .. } => {
                            let o = &orders[id];
                            let is_limit = o.price != 0 && o.price != u32::MAX;
                            (if *restate_price && is_limit { Some(o.price) } else { None }, dvol.map(|d| (o.vol as i64 + d as i64).clamp(1, u32::MAX as i64) as u32))
                        }
                        _ => unreachable!(),
                    };
                    let (price, vol) = (&price, &vol);
                    if unpinned >= MAX_UNPINNED && orc.schedule {
                        feat.skipped_instr += 1;
                        continue;
                    }
                    unpinned += 1;
                    let o = &orders[id];
                    let price = &crate::ops::limit_price(o.bid, *price, case.ticks[a]);
                    // exact-volume cases: a modification never raises the volume (only new orders add volume there)
                    let vol = if case.exact_vols { vol.map(|v| v.clamp(1, o.vol.max(1))) } else { *vol };
                    let vol = vol.map(|v| {
                        // charge potential increases against the budget of the order's side
                        let k = o.bid as usize;
                        let avail = budget[a][k].saturating_sub((total_instr - instr_seen.min(total_instr)) as u64 + 4).max(1);
                        let v = (v.max(1) as u64).min(avail);
                        budget[a][k] = budget[a][k].saturating_sub(v);
                        v as u32
                    });
                    env.modify_order((a, id), *price, vol);
                    if let Some((t, _)) = twin.as_mut() {
                        t.modify_order((a, id), *price, vol);
                    }
                    if o.status == St::New {
                        feat.same_batch_target += 1;
                    }
                    if targets_in_batch.contains(&(a, id)) {
                        feat.same_order_multi_instr += 1;
                    }
                    targets_in_batch.push((a, id));
                    batch.instrs.push(PInstr { asset: a, ev: Ev::Modify(id, *price, vol), is_new: false });
                }
            }
            feat.instructions += 1;
            // ---- C10: nothing observable changes at submission except the appended New order
            if orc.invisible {
                let after = env_obs(env.as_ref());
                let mut want = before.clone().unwrap();
                if let Some((a, rec)) = appended.as_ref() {
                    want.books[*a].orders.push(rec.clone());
                }
                if after != want {
                    let mut d = String::from("recorded series or cached level-2 changed");
                    for a in 0..n {
                        if let Some(x) = diff_obs(&after.books[a], &want.books[a]) {
                            d = format!("asset {}: {}", a, x);
                            break;
                        }
                    }
                    return Err(fail("C10 submission changed something observable before the step", si, format!("{:?}: {}", ins, d)));
                }
                for a in 0..n {
                    if env.cached_l2(a) != env.book(a).level_2_data() {
                        return Err(fail("C10 cached level-2 differs from the live book", si, format!("asset {} after submitting {:?}", a, ins)));
                    }
                }
                // would this instruction have changed the book if applied directly?
                if let Some((a, rec)) = appended.as_ref() {
                    let v = &after.books[*a].views;
                    let crosses = if rec.bid { v.ask_vol > 0 && rec.price >= v.bid_ask.1 } else { v.bid_vol > 0 && rec.price <= v.bid_ask.0 };
                    let improves = if rec.bid { rec.price > v.bid_ask.0 && rec.price != u32::MAX } else { rec.price < v.bid_ask.1 && rec.price != 0 };
                    if (crosses || improves) && (v.bid_vol > 0 || v.ask_vol > 0) {
                        feat.would_trade_submissions += 1;
                    }
                } else if after.books.iter().any(|b| b.views.bid_vol > 0 || b.views.ask_vol > 0) {
                    feat.would_trade_submissions += 1;
                }
            }
        }
        let nb = batch.instrs.len();
        feat.max_batch = feat.max_batch.max(nb);
        feat.unpinned_max = feat.unpinned_max.max(unpinned);
        if nb == 0 {
            feat.empty_steps += 1;
        }
        let overfull = nb as u64 > case.step_size;
        if overfull {
            feat.overfull_steps += 1;
            ever_overfull = true;
        }
        if nb as u64 == case.step_size {
            feat.full_steps += 1;
        }
        let trades_before: Vec<usize> = (0..n).map(|a| env.book(a).n_trades()).collect();
        let pre_books: Vec<Obs> = if orc.trading || orc.audits { (0..n).map(|a| capture(env.book(a))).collect() } else { vec![] };

        // ---- the step
        env.step(&mut rng);
        feat.steps += 1;
        if let Some((t, r)) = twin.as_mut() {
            t.step(r);
            let (a, b) = if q { (env_obs(t.as_ref()), env_obs(t.as_ref())) } else { (env_obs(env.as_ref()), env_obs(t.as_ref())) };
            if a != b {
                return Err(fail("C12 rejected creation influenced later steps", si, "environment differs from a twin that never received the rejected creations".to_string()));
            }
        }

        // ---- C12 at environment level: every limit price on its asset's grid after the step
        if orc.grid {
            for a in 0..n {
                for o in env.get_orders(a).iter() {
                    let market = (o.bid && o.price == u32::MAX) || (!o.bid && o.price == 0);
                    if !market && o.price % case.ticks[a] != 0 {
                        return Err(fail("C12 off-grid price in the environment's book", si, format!("asset {} order {:?} tick {}", a, o, case.ticks[a])));
                    }
                }
            }
        }

        // ---- direct clauses of C08
        if orc.schedule || orc.records {
            for a in 0..n {
                if env.book(a).get_time() != start + case.step_size {
                    return Err(fail("C08 clock after the step is not start + step size", si, format!("asset {}: clock {} expected {}", a, env.book(a).get_time(), start + case.step_size)));
                }
            }
        }
        let post_books: Vec<Obs> = (0..n)
            .map(|a| {
                if q {
                    let b = env.book(a);
                    let orders = b.orders();
                    let views = crate::obs::recompute_views(&orders, case.ticks[a], case.levels);
                    Obs { time: b.get_time(), trade_vol: b.get_trade_vol(), orders, trades: b.trades(), views }
                } else {
                    capture(env.book(a))
                }
            })
            .collect();
        for a in 0..n {
            let nt = post_books[a].trades.len() - trades_before[a].min(post_books[a].trades.len());
            feat.trades += nt as u64;
            if nt > 0 && reenabled_after_cross {
                feat.traded_after_reenable = true;
            }
        }
        feat.assets_active = feat.assets_active.max(post_books.iter().filter(|b| b.orders.iter().any(|o| o.status == St::Active)).count());
        if (orc.schedule || orc.records) && !q {
            for a in 0..n {
                let new_tr = &post_books[a].trades[trades_before[a].min(post_books[a].trades.len())..];
                let sum: u64 = new_tr.iter().map(|t| t.vol as u64).sum();
                let s = env.series(a);
                if s.trade_vols.last().map(|x| *x as u64) != Some(sum) || post_books[a].trade_vol as u64 != sum {
                    let sig = if orc.records { "C11 per-step traded volume differs from the step's trades" } else { "C08 step's traded volume does not count exactly that step's trades" };
                    return Err(fail(sig, si, format!("asset {}: recorded {:?}, live counter {}, logged in this step {}", a, s.trade_vols.last(), post_books[a].trade_vol, sum)));
                }
                if !ever_overfull {
                    for t in new_tr {
                        if t.t < start || t.t >= start + (nb as u64).max(1) {
                            return Err(fail("C08 trade stamped outside start..start+n", si, format!("asset {}: {:?}, start {}, batch {}", a, t, start, nb)));
                        }
                    }
                }
            }
        }

        // ---- schedule inference (C08 / C14 / C05b)
        if schedule_on {
            hist.push(batch.clone());
            // pinned positions from arrival timestamps of the new orders
            let mut pinned: Vec<(usize, usize)> = vec![];
            let mut free: Vec<usize> = vec![];
            let mut used = vec![false; nb];
            for (k, ins) in batch.instrs.iter().enumerate() {
                if ins.is_new {
                    let id = match ins.ev {
                        Ev::New(i) => i,
                        _ => unreachable!(),
                    };
                    let o = &post_books[ins.asset].orders[id];
                    if o.status == St::New {
                        return Err(fail("C08 queued instruction was not applied", si, format!("order ({}, {}) is still New after the step", ins.asset, id)));
                    }
                    let pos = o.arr_time.wrapping_sub(start);
                    if pos >= nb as u64 || used[pos as usize] {
                        return Err(fail("C08 instruction timestamp is not start+i for a permutation", si, format!("order ({}, {}) arrived at {}, start {}, batch of {}", ins.asset, id, o.arr_time, start, nb)));
                    }
                    used[pos as usize] = true;
                    pinned.push((k, pos as usize));
                } else {
                    free.push(k);
                }
            }
            let arrs = arrangements(nb, &pinned, &free);
            if cands.len() * arrs.len() > 40_000 {
                feat.inconclusive = true;
                schedule_on = false;
            } else {
                let mut next: Vec<(Vec<Vec<usize>>, Vec<Vec<usize>>)> = vec![];
                for cand in cands.iter() {
                    for arr in arrs.iter() {
                        let mut perms: Vec<&Vec<usize>> = cand.iter().collect();
                        perms.push(arr);
                        let books = ctx.rebuild(&hist, &perms);
                        feat.rebuilds += 1;
                        let ok = (0..n).all(|a| capture(books[a].as_ref()) == post_books[a]);
                        if ok {
                            let sig = ctx.drain_signature(books);
                            feat.rebuilds += 1;
                            if !next.iter().any(|(_, s)| *s == sig) {
                                let mut c = cand.clone();
                                c.push(arr.clone());
                                next.push((c, sig));
                            }
                        }
                    }
                }
                if next.is_empty() {
                    // explain with the first candidate's closest arrangement
                    let mut why = String::new();
                    if let (Some(cand), Some(arr)) = (cands.first(), arrs.first()) {
                        let mut perms: Vec<&Vec<usize>> = cand.iter().collect();
                        perms.push(arr);
                        let books = ctx.rebuild(&hist, &perms);
                        for a in 0..n {
                            if let Some(d) = diff_obs(&post_books[a], &capture(books[a].as_ref())) {
                                why = format!("e.g. asset {} (environment vs plain book under one consistent order): {}", a, d);
                                break;
                            }
                        }
                    }
                    let sig = if case.kind_assets > 0 && prop == "C14" { "C14 multi-asset step differs from stand-alone books under every consistent schedule" } else { "C08 no processing order of the batch on a plain order book explains the environment" };
                    return Err(fail(sig, si, format!("batch of {} ({} arrangements x {} live schedules tried). {}", nb, arrs.len(), cands.len(), why)));
                }
                if next.len() > 1 {
                    feat.multi_candidate_steps += 1;
                }
                feat.candidates_max = feat.candidates_max.max(next.len());
                if next.len() > MAX_CANDS {
                    feat.inconclusive = true;
                    schedule_on = false;
                }
                // order sensitivity of this batch, measured on the plain book
                if nb >= 2 {
                    let c0 = &next[0].0;
                    let mut rev = c0.last().unwrap().clone();
                    rev.reverse();
                    let mut perms: Vec<&Vec<usize>> = c0[..c0.len() - 1].iter().collect();
                    perms.push(&rev);
                    let books = ctx.rebuild(&hist, &perms);
                    feat.rebuilds += 1;
                    let differs = (0..n).any(|a| {
                        let mut o = capture(books[a].as_ref());
                        // ignore pure timestamp differences: compare statuses, volumes, trades' parties
                        let p = &post_books[a];
                        o.orders.iter().zip(p.orders.iter()).any(|(x, y)| x.status != y.status || x.vol != y.vol || x.price != y.price)
                            || o.trades.len() != p.trades.len()
                            || o.trades.iter().zip(p.trades.iter()).any(|(x, y)| (x.passive, x.vol, x.price) != (y.passive, y.vol, y.price))
                            || {
                                o.views.mid_bits = p.views.mid_bits;
                                diff_views(&o.views, &p.views).is_some()
                            }
                    });
                    if differs {
                        feat.order_sensitive_batches += 1;
                    }
                }
                cands = next.into_iter().map(|x| x.0).collect();
            }
        }

        // ---- C14 at environment level: every per-asset query of the environment returns that
        // asset's own values (the live books were just shown equal to the stand-alone books)
        if orc.schedule && prop == "C14" && !q {
            for a in 0..n {
                let p = &post_books[a];
                if env.cached_l2(a) != p.views.l2 {
                    return Err(fail("C14 environment level-2 query does not return the asset's own values", si, format!("asset {}: level_2_data() {:?}, stand-alone book {:?}", a, env.cached_l2(a), p.views.l2)));
                }
                let s = env.series(a);
                let last = |v: &Vec<u32>| v.last().cloned();
                let ok = last(&s.prices.0) == Some(p.views.bid_ask.0)
                    && last(&s.prices.1) == Some(p.views.bid_ask.1)
                    && last(&s.volumes.0) == Some(p.views.bid_vol)
                    && last(&s.volumes.1) == Some(p.views.ask_vol)
                    && last(&s.touch_volumes.0) == Some(p.views.bid_best_vo.0)
                    && last(&s.touch_volumes.1) == Some(p.views.ask_best_vo.0)
                    && last(&s.touch_counts.0) == Some(p.views.bid_best_vo.1)
                    && last(&s.touch_counts.1) == Some(p.views.ask_best_vo.1)
                    && (0..case.levels).all(|l| last(&s.level_bid_vols[l]) == Some(p.views.bid_levels[l].0) && last(&s.level_bid_counts[l]) == Some(p.views.bid_levels[l].1) && last(&s.level_ask_vols[l]) == Some(p.views.ask_levels[l].0) && last(&s.level_ask_counts[l]) == Some(p.views.ask_levels[l].1))
                    && last(&s.trade_vols) == Some(p.trade_vol);
                if !ok {
                    return Err(fail("C14 environment history query does not return the asset's own values", si, format!("asset {}", a)));
                }
                if env.get_orders(a) != p.orders || env.get_trades(a) != p.trades {
                    return Err(fail("C14 environment order/trade query does not return the asset's own records", si, format!("asset {}", a)));
                }
                for o in p.orders.iter() {
                    if env.order((a, o.id)) != *o || env.order_status((a, o.id)) != o.status {
                        return Err(fail("C14 environment order query does not return the asset's own record", si, format!("asset {} order {}", a, o.id)));
                    }
                }
            }
        }

        // ---- C10 after the step: cached level-2 equals the live book's
        if orc.invisible || orc.records {
            for a in 0..n {
                if env.cached_l2(a) != env.book(a).level_2_data() {
                    return Err(fail("C10 cached level-2 differs from the live book after the step", si, format!("asset {}: cached {:?}, live {:?}", a, env.cached_l2(a), env.book(a).level_2_data())));
                }
            }
        }

        // ---- C11: recorded series
        if orc.records {
            let k = si + 1;
            let pre = pre_step.as_ref().unwrap();
            for a in 0..n {
                let s = env.series(a);
                let b = env.book(a);
                let lens = [s.prices.0.len(), s.prices.1.len(), s.volumes.0.len(), s.volumes.1.len(), s.touch_volumes.0.len(), s.touch_volumes.1.len(), s.touch_counts.0.len(), s.touch_counts.1.len(), s.trade_vols.len()];
                if lens.iter().any(|l| *l != k) || s.level_bid_vols.len() != case.levels || [&s.level_bid_vols, &s.level_bid_counts, &s.level_ask_vols, &s.level_ask_counts].iter().any(|x| x.len() != case.levels || x.iter().any(|v| v.len() != k)) {
                    return Err(fail("C11 recorded series length is not the number of steps", si, format!("asset {}: lengths {:?} after {} steps", a, lens, k)));
                }
                let (bp, ap) = b.bid_ask();
                let (bl, al) = (b.bid_levels(), b.ask_levels());
                let (btv, btc) = b.bid_best_vol_and_orders();
                let (atv, atc) = b.ask_best_vol_and_orders();
                let mut bad: Option<String> = None;
                let mut chk = |name: &str, got: u32, want: u32| {
                    if got != want && bad.is_none() {
                        bad = Some(format!("{}: recorded {}, live book {}", name, got, want));
                    }
                };
                chk("bid price", s.prices.0[k - 1], bp);
                chk("ask price", s.prices.1[k - 1], ap);
                chk("bid volume", s.volumes.0[k - 1], b.bid_vol());
                chk("ask volume", s.volumes.1[k - 1], b.ask_vol());
                chk("bid touch volume", s.touch_volumes.0[k - 1], btv);
                chk("ask touch volume", s.touch_volumes.1[k - 1], atv);
                chk("bid touch order count", s.touch_counts.0[k - 1], btc);
                chk("ask touch order count", s.touch_counts.1[k - 1], atc);
                for l in 0..case.levels {
                    chk(&format!("bid volume at level {}", l), s.level_bid_vols[l][k - 1], bl[l].0);
                    chk(&format!("bid order count at level {}", l), s.level_bid_counts[l][k - 1], bl[l].1);
                    chk(&format!("ask volume at level {}", l), s.level_ask_vols[l][k - 1], al[l].0);
                    chk(&format!("ask order count at level {}", l), s.level_ask_counts[l][k - 1], al[l].1);
                }
                if let Some(m) = bad {
                    return Err(fail("C11 recorded entry differs from the live book at the end of the step", si, format!("asset {}: {}", a, m)));
                }
                // earlier entries unchanged
                let p = &pre.series[a];
                let mut cur = s.clone();
                let trunc = |v: &mut Vec<u32>| v.truncate(k - 1);
                trunc(&mut cur.prices.0);
                trunc(&mut cur.prices.1);
                trunc(&mut cur.volumes.0);
                trunc(&mut cur.volumes.1);
                trunc(&mut cur.touch_volumes.0);
                trunc(&mut cur.touch_volumes.1);
                trunc(&mut cur.touch_counts.0);
                trunc(&mut cur.touch_counts.1);
                trunc(&mut cur.trade_vols);
                for x in [&mut cur.level_bid_vols, &mut cur.level_bid_counts, &mut cur.level_ask_vols, &mut cur.level_ask_counts] {
                    for v in x.iter_mut() {
                        v.truncate(k - 1);
                    }
                }
                if cur != *p {
                    return Err(fail("C11 earlier recorded entries changed", si, format!("asset {}", a)));
                }
                // traded volume of the step = trades time-stamped within the step
                if !ever_overfull {
                    let win: u64 = post_books[a].trades.iter().filter(|t| t.t >= start && t.t < start + case.step_size).map(|t| t.vol as u64).sum();
                    if s.trade_vols[k - 1] as u64 != win {
                        return Err(fail("C11 per-step traded volume differs from the trades time-stamped within the step", si, format!("asset {}: recorded {}, trades in [{}, {}) sum to {}", a, s.trade_vols[k - 1], start, start + case.step_size, win)));
                    }
                }
                // asymmetry statistics
                let asym = b.bid_vol() != b.ask_vol() && btv != atv && btc != atc && bl.iter().skip(1).any(|x| x.1 > 0) && al.iter().skip(1).any(|x| x.1 > 0);
                if asym {
                    feat.asym_steps += 1;
                }
            }
        }

        // ---- C13 at environment level
        if orc.trading {
            for a in 0..n {
                if !trading {
                    if post_books[a].trades.len() != pre_books[a].trades.len() {
                        return Err(fail("C13 trade recorded while trading disabled", si, format!("asset {}: {:?}", a, post_books[a].trades.last())));
                    }
                    for o in post_books[a].orders.iter() {
                        let market = (o.bid && o.price == u32::MAX) || (!o.bid && o.price == 0);
                        let was_new = pre_books[a].orders.get(o.id).map_or(true, |p| p.status == St::New);
                        if market && was_new && o.status != St::New && o.status != St::Rejected {
                            return Err(fail("C13 market order not rejected while trading disabled", si, format!("asset {}: {:?}", a, o)));
                        }
                    }
                    let v = &post_books[a].views;
                    if v.bid_vol > 0 && v.ask_vol > 0 && v.bid_ask.0 >= v.bid_ask.1 {
                        crossed_off = true;
                        feat.crossed_while_off = true;
                    }
                }
            }
        }

        // ---- C05b: model-free audits after every step
        if orc.audits {
            for a in 0..n {
                let p = &post_books[a];
                let want = recompute_views(&p.orders, case.ticks[a], case.levels);
                if let Some(d) = diff_views(&p.views, &want) {
                    return Err(fail("C05 published view differs from resting orders after a step", si, format!("asset {}: {}", a, d)));
                }
                // ledger: the old log is a prefix; volumes reconcile for orders untouched by modifications
                if p.trades[..pre_books[a].trades.len().min(p.trades.len())] != pre_books[a].trades[..] {
                    return Err(fail("C05 logged trades changed", si, format!("asset {}", a)));
                }
                for (x, y) in pre_books[a].orders.iter().zip(p.orders.iter()) {
                    if x.status.terminal() && x != y {
                        return Err(fail("C05 terminal order changed", si, format!("asset {}: {:?} -> {:?}", a, x, y)));
                    }
                }
                // timestamps of this step's orders collide with the next step's range?
                if overfull {
                    feat.cross_step_ts_collision = true;
                }
                // C07 on such histories: the book an overfull step leaves behind (records stamped later than its
                // clock) must survive a snapshot round trip unchanged
                if !q {
                    let how = (si % 4) as u8;
                    match std::panic::catch_unwind(std::panic::AssertUnwindSafe(|| crate::ops::reload_book(env.book(a), how))) {
                        Ok(Ok(b)) => {
                            if let Some(d) = diff_obs(&capture(b.as_ref()), p) {
                                return Err(fail("C05 snapshot of the book after a step does not restore it", si, format!("asset {}: reloaded vs live: {}", a, d)));
                            }
                        }
                        Ok(Err(e)) => return Err(fail("C05 snapshot of the book after a step fails to load", si, format!("asset {}: {}", a, e))),
                        Err(_) => return Err(fail("C05 snapshot of the book after a step panics on load", si, format!("asset {}: {}", a, crate::engine::last_panic()))),
                    }
                }
            }
            if is_drain && si == n_core + 1 && trading {
                for a in 0..n {
                    if let Some(o) = post_books[a].orders.iter().find(|o| o.status == St::Active) {
                        return Err(fail("C05 resting order was not executed by a drain of the whole book", si, format!("asset {}: {:?} still active; bid_ask {:?}", a, o, post_books[a].views.bid_ask)));
                    }
                }
            }
        }
    }
    Ok(())
}
