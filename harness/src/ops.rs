//! Operation language for single-book histories, and the interpreter that executes a history on
//! the real book (plus, as configured, the reference model and a lock-step twin) and runs the
//! per-property oracles after every operation.

use crate::dynbook::{book_from_file, book_from_str, new_book, DynBook, Ev};
use crate::model::{ModelBook, OrderRec, St};
use crate::obs::{capture, diff_model, diff_obs, diff_views, recompute_views, Obs};
use serde::{Deserialize, Serialize};
use std::collections::BTreeMap;

/// Reference to an existing order: `pref` selects a status pool (0 = any, 1..=5 = New, Active,
/// Filled, Cancelled, Rejected), `ix` is mapped monotonically onto the pool.
#[derive(Clone, Copy, Debug, PartialEq, Eq, Hash, Serialize, Deserialize)]
pub struct Ref {
    pub pref: u8,
    pub ix: u16,
}

#[derive(Clone, Debug, PartialEq, Eq, Hash, Serialize, Deserialize)]
pub enum Op {
    Create { bid: bool, vol: u32, trader: u32, price: Option<u32> },
    Place(Ref),
    CreatePlace { bid: bool, vol: u32, trader: u32, price: Option<u32> },
    Cancel(Ref),
    Modify { r: Ref, price: Option<u32>, vol: Option<u32> },
    EvNew(Ref),
    EvCancel(Ref),
    EvModify { r: Ref, price: Option<u32>, vol: Option<u32> },
    /// modify with the new volume given relative to the current one (enumerators: cur-1, cur, cur+1)
    ModifyRel { r: Ref, price: Option<u32>, dvol: i8 },
    Advance(u64),
    Trading(bool),
    ResetTradeVol,
    /// 0 = to_string, 1 = to_string_pretty, 2 = save_json(file, false), 3 = save_json(file, true)
    Reload(u8),
}

#[derive(Clone, Debug, PartialEq, Eq, Hash, Serialize, Deserialize)]
pub struct BookCase {
    pub tick: u32,
    pub levels: usize,
    pub trading: bool,
    pub t0: u64,
    /// true: equal queue timestamps allowed (C05); false: clock discipline enforced by inserting
    /// `Advance(1)` before an operation that could queue at an occupied (side, price, time)
    pub tie: bool,
    pub ops: Vec<Op>,
    pub drain: bool,
    /// bit (k mod 64) set: after operation k the book's market-data getters are NOT called (orders, trades and
    /// clock are still read; the views are taken as recomputed from the order list), so that state which a getter
    /// call would refresh stays as the mutating operations left it
    #[serde(default)]
    pub quiet: u64,
    /// orders placed before the first operation WITHOUT being observed one by one: (bid, count, price, volume each);
    /// limit orders that do not cross (the generator's responsibility), one clock tick apart (same timestamp in tie
    /// histories). Levels of tens of thousands of orders are built this way: auditing after each of them would be
    /// quadratic. The state they leave is audited as state 0.
    #[serde(default)]
    pub bulk: Vec<(bool, u32, u32, u32)>,
}

#[derive(Clone, Copy, Debug, Default)]
pub struct Oracles {
    /// compare with the reference engine after every op (C01, C05, C06, C13)
    pub model: bool,
    /// recompute every view from get_orders() (C02)
    pub views: bool,
    /// ledger audit (C03)
    pub ledger: bool,
    /// per-order transition monitor and no-op clauses (C04)
    pub lifecycle: bool,
    /// grid invariant, creation iff-rule, level accounting (C12)
    pub grid: bool,
    /// trading-flag invariants (C13)
    pub trading: bool,
    /// lock-step original vs reloaded (C07)
    pub lockstep: bool,
    /// model-free modification side conditions (C06)
    pub modify: bool,
}

impl Oracles {
    pub fn all() -> Self {
        Oracles { model: true, views: true, ledger: true, lifecycle: true, grid: true, trading: true, lockstep: true, modify: true }
    }
}

#[derive(Clone, Debug)]
pub struct Failure {
    /// the property whose oracle failed
    pub prop: String,
    /// short stable signature (call site / input class)
    pub sig: String,
    pub msg: String,
}

impl Failure {
    pub fn new(prop: &str, sig: &str, msg: String) -> Self {
        Failure { prop: prop.to_string(), sig: sig.to_string(), msg }
    }
}

/// Measured features of one executed history (for non-triviality rules and class counters).
#[derive(Clone, Debug, Default)]
pub struct Features {
    pub quiet_ops: u64,
    pub ops_executed: u64,
    pub ops_skipped: u64,
    pub inserted_advances: u64,
    pub states_audited: u64,
    pub trades: u64,
    pub priority_exercised: bool,
    pub multi_level_sweep: bool,
    pub partial_head_fill: bool,
    pub partial_then_cancel: bool,
    pub market_remainder_discarded: bool,
    pub limit_remainder_rested: bool,
    pub depth3_at_fill: bool,
    pub bid_aggressed: bool,
    pub ask_aggressed: bool,
    pub multi_level_decrement: bool,
    pub level_gap_seen: bool,
    pub empty_side_seen: bool,
    pub crossed_states: u64,
    pub states_after_reload: u64,
    pub orders_multi_fill: u64,
    pub modify_traded: u64,
    pub resets: u64,
    /// redundant request counts: [kind 0=place,1=cancel,2=modify][status code]
    pub redundant: [[u64; 6]; 3],
    pub redundant_terminal_nonempty: bool,
    pub ties_created: u64,
    pub tie_touched: bool,
    pub modify_kinds: [u64; 5], // reduce, equal, increase, price-only, both
    pub modify_shared_level: bool,
    pub modify_cross_partial: bool,
    pub reloads: u64,
    pub snapshot_deep_queue: bool,
    pub snapshot_queue_traded: bool,
    pub snapshot_statuses: [bool; 6],
    pub offgrid_create: u64,
    pub offgrid_create_nonempty: bool,
    pub offgrid_modify: u64,
    pub toggles: u64,
    pub crossed_while_off: bool,
    pub aggressor_after_reenable: bool,
    pub rejected_market: u64,
    pub cross_place_while_off: u64,
    pub max_orders: usize,
}

impl Features {
    pub fn classes(&self) -> Vec<(&'static str, u64)> {
        let b = |x: bool| x as u64;
        vec![
            ("priority_exercised", b(self.priority_exercised)),
            ("multi_level_sweep", b(self.multi_level_sweep)),
            ("partial_head_fill", b(self.partial_head_fill)),
            ("partial_then_cancel", b(self.partial_then_cancel)),
            ("market_remainder_discarded", b(self.market_remainder_discarded)),
            ("limit_remainder_rested", b(self.limit_remainder_rested)),
            ("depth3_at_fill", b(self.depth3_at_fill)),
            ("both_sides_aggressed", b(self.bid_aggressed && self.ask_aggressed)),
            ("multi_level_decrement", b(self.multi_level_decrement)),
            ("level_gap_seen", b(self.level_gap_seen)),
            ("empty_side_seen", b(self.empty_side_seen)),
            ("had_crossed_state", b(self.crossed_states > 0)),
            ("had_reload", b(self.reloads > 0)),
            ("order_with_2plus_fills", b(self.orders_multi_fill > 0)),
            ("modify_traded", b(self.modify_traded > 0)),
            ("had_tie", b(self.ties_created > 0)),
            ("tie_touched", b(self.tie_touched)),
            ("modify_shared_level", b(self.modify_shared_level)),
            ("modify_cross_partial", b(self.modify_cross_partial)),
            ("snapshot_deep_queue", b(self.snapshot_deep_queue)),
            ("snapshot_queue_traded", b(self.snapshot_queue_traded)),
            ("offgrid_create_nonempty", b(self.offgrid_create_nonempty)),
            ("offgrid_modify", b(self.offgrid_modify > 0)),
            ("crossed_while_off", b(self.crossed_while_off)),
            ("aggressor_after_reenable", b(self.aggressor_after_reenable)),
            ("rejected_market", b(self.rejected_market > 0)),
            ("redundant_terminal_nonempty", b(self.redundant_terminal_nonempty)),
        ]
    }
}

/// One snapshot path per worker thread, deliberately NOT removed between uses: saving over an existing
/// (often longer) file is ordinary usage and must replace it. Before its first use the file holds a long
/// unrelated text.
fn scratch_path() -> std::path::PathBuf {
    thread_local! {
        static PATH: std::path::PathBuf = {
            use std::sync::atomic::{AtomicU64, Ordering};
            static N: AtomicU64 = AtomicU64::new(0);
            let p = crate::engine::scratch_dir().join(format!("snap-{}-{}.json", std::process::id(), N.fetch_add(1, Ordering::Relaxed)));
            let _ = std::fs::write(&p, format!("{{{}}}", " ".repeat(60_000)));
            p
        };
    }
    PATH.with(|p| p.clone())
}

/// Serialise a book through one of the four documented routes and load it back.
pub fn reload_book(b: &dyn DynBook, how: u8) -> Result<Box<dyn DynBook>, String> {
    match how % 4 {
        0 => book_from_str(b.levels(), &b.to_json(false)),
        1 => book_from_str(b.levels(), &b.to_json(true)),
        h => {
            let p = scratch_path();
            b.save_json(&p, h == 3)?;
            book_from_file(b.levels(), &p)
        }
    }
}

/// Largest admissible volume (>= `min_vol`) for a new order / a volume increase of `vol` on side `bid`,
/// keeping the history inside the properties' domain: per-side resting volume < 2^32 and cumulative traded
/// volume (the counter since its last reset) < 2^32 at every moment. Computed from the observed pre-state,
/// not from a running sum of everything ever created, so large volumes keep arriving as long as earlier ones
/// traded away or were cancelled.
///  * `own`      volume of the modified order that leaves the side first (0 for a new order)
///  * `tradable` volume that will execute immediately (opposite resting volume the order's limit admits;
///               0 when trading is off or the order is only created)
///  * `rests`    false for market orders (their remainder is discarded)
#[allow(clippy::too_many_arguments)]
pub fn admissible_vol(orders: &[OrderRec], traded_ctr: u64, bid: bool, vol: u32, own: u64, tradable: u64, rests: bool, ops_left: usize, min_vol: u64) -> u32 {
    let lim = (u32::MAX as u64 - 1).saturating_sub(ops_left as u64 + 4);
    let live = |side: bool| -> u64 { orders.iter().filter(|o| o.bid == side && (o.status == St::Active || o.status == St::New)).map(|o| o.vol as u64).sum() };
    let (same, opp) = (live(bid).saturating_sub(own), live(!bid));
    let total = own + (vol as u64).max(min_vol);
    // resting: same + total - min(total, tradable) <= lim
    let mut max_total = if rests { (lim + tradable).saturating_sub(same) } else { u64::MAX };
    // counter: traded + min(same + total, opp) <= lim   (invariant under trades)
    if traded_ctr + opp > lim {
        max_total = max_total.min(lim.saturating_sub(traded_ctr).saturating_sub(same));
    }
    let t = total.min(max_total).max(own + min_vol).min(u32::MAX as u64 - 1);
    (t - own) as u32
}

/// Volume that an order of side `bid` with limit `price` would execute immediately against `orders`.
pub fn tradable_now(orders: &[OrderRec], bid: bool, price: u32) -> u64 {
    orders.iter().filter(|o| o.status == St::Active && o.bid != bid && if bid { o.price <= price } else { o.price >= price }).map(|o| o.vol as u64).sum()
}

/// The two price values that denote market orders (bid at 2^32-1, ask at 0) are not limit prices; a
/// generated request naming one of them is given the nearest ordinary grid price instead. A bid at 0
/// and an ask at 2^32-1 are ordinary (if extreme) limit prices and pass through.
pub fn limit_price(bid: bool, price: Option<u32>, tick: u32) -> Option<u32> {
    match price {
        Some(u32::MAX) if bid => Some(((u32::MAX - 1) / tick) * tick),
        Some(0) if !bid => Some(tick),
        p => p,
    }
}

fn resolve(orders: &[OrderRec], r: Ref) -> Option<usize> {
    if orders.is_empty() {
        return None;
    }
    if r.pref >= 100 {
        // exact id (enumerators): 100..199 = small ids (plus ix), 200.. = (pref - 200) * 2^16 + ix
        let id = if r.pref >= 200 { ((r.pref - 200) as usize) << 16 | r.ix as usize } else { (r.pref - 100) as usize + r.ix as usize };
        return if id < orders.len() { Some(id) } else { None };
    }
    let want = match r.pref {
        1 => Some(St::New),
        2 => Some(St::Active),
        3 => Some(St::Filled),
        4 => Some(St::Cancelled),
        5 => Some(St::Rejected),
        _ => None,
    };
    if let Some(w) = want {
        let pool: Vec<usize> = orders.iter().filter(|o| o.status == w).map(|o| o.id).collect();
        if !pool.is_empty() {
            return Some(pool[(r.ix as usize * pool.len()) >> 16]);
        }
    }
    Some((r.ix as usize * orders.len()) >> 16)
}

#[derive(Clone, Copy, PartialEq, Eq, Debug)]
enum Kind {
    Place,
    Cancel,
    Modify,
    Other,
}

struct Run<'a> {
    case: &'a BookCase,
    orc: Oracles,
    real: Box<dyn DynBook>,
    twin: Option<Box<dyn DynBook>>,
    model: Option<ModelBook>,
    now: u64,
    trading: bool,
    ever_off: bool,
    /// harness-side bookkeeping (independent of the model)
    is_market: Vec<bool>,
    base: Vec<u64>,
    since: Vec<u64>,
    fills: Vec<u32>,
    reset_at: usize,
    /// (bid, price) -> last time an operation may have queued an order there
    last_queue: BTreeMap<(bool, u32), u64>,
    /// queue time of resting orders as far as the harness can know it (for tie statistics)
    qtime: Vec<Option<u64>>,
    tied: Vec<bool>,
    /// traded volume logged since the last reset of the counter (harness ledger)
    traded_ctr: u64,
    off_since: Option<usize>,
    reenabled_after_cross: bool,
    snapshot_levels: Vec<(bool, u32)>,
    partially_filled: Vec<bool>,
    /// (step, id, bid, price) of the last effective re-queuing modification that rested without trading
    last_requeue: Option<(usize, usize, bool, u32)>,
    pub feat: Features,
}


impl<'a> Run<'a> {
    fn fail(&self, prop: &str, sig: &str, step: usize, op: &Op, msg: String) -> Failure {
        Failure::new(prop, sig, format!("step {} op {:?}: {}", step, op, msg))
    }

    #[allow(clippy::too_many_arguments)]
    fn clamp_vol(&mut self, pre: &Obs, bid: bool, vol: u32, own: u64, tradable: u64, rests: bool, ops_left: usize) -> u32 {
        admissible_vol(&pre.orders, self.traded_ctr, bid, vol, own, tradable, rests, ops_left, 1)
    }

    fn apply_all<F: Fn(&mut dyn DynBook)>(&mut self, f: F) {
        f(self.real.as_mut());
        if let Some(t) = self.twin.as_mut() {
            f(t.as_mut());
        }
    }

    fn set_time(&mut self, t: u64) {
        self.now = t;
        self.apply_all(|b| b.set_time(t));
        if let Some(m) = self.model.as_mut() {
            m.set_time(t);
        }
    }

    /// clock discipline: would an order possibly be queued at (bid, price) now, where one was
    /// possibly queued at the same time already?
    /// Returns false when the operation cannot be executed without a tie: the clock stands at its last value
    /// (u64::MAX) and cannot be advanced any more; the caller then skips the operation.
    fn discipline(&mut self, bid: bool, price: u32) -> bool {
        let clash = self.last_queue.get(&(bid, price)) == Some(&self.now);
        if clash {
            if !self.case.tie && self.now == u64::MAX {
                self.feat.ops_skipped += 1;
                return false;
            }
            if self.case.tie {
                self.feat.ties_created += 1;
            } else {
                let t = self.now + 1;
                self.set_time(t);
                self.feat.inserted_advances += 1;
            }
        }
        let now = self.now;
        self.last_queue.insert((bid, price), now);
        true
    }
}

/// Largest clock value of a history: u64::MAX itself (the value the order records use for "no end time yet").
/// With clock discipline an operation that would tie while the clock stands there is skipped (see `discipline`).
fn clock_cap(_case: &BookCase) -> u64 {
    u64::MAX
}

/// Execute a history with the configured oracles.
pub fn run_book_case(case: &BookCase, orc: Oracles) -> (Features, Result<(), Failure>) {
    let capped;
    let case = if case.t0 > clock_cap(case) {
        capped = BookCase { t0: clock_cap(case), ..case.clone() };
        &capped
    } else {
        case
    };
    let real = new_book(case.levels, case.t0, case.tick, case.trading);
    let model = if orc.model { Some(ModelBook::new(case.t0, case.tick, case.trading)) } else { None };
    let mut run = Run {
        case,
        orc,
        real,
        twin: None,
        model,
        now: case.t0,
        trading: case.trading,
        ever_off: !case.trading,
        is_market: vec![],
        base: vec![],
        since: vec![],
        fills: vec![],
        reset_at: 0,
        last_queue: BTreeMap::new(),
        qtime: vec![],
        tied: vec![],
        traded_ctr: 0,
        off_since: None,
        reenabled_after_cross: false,
        snapshot_levels: vec![],
        partially_filled: vec![],
        last_requeue: None,
        feat: Features::default(),
    };
    let r = run.go();
    (run.feat, r)
}

/// Execute a history without oracles and hand back the resulting real book.
pub fn build_book(case: &BookCase) -> Box<dyn DynBook> {
    let capped;
    let case = if case.t0 > clock_cap(case) {
        capped = BookCase { t0: clock_cap(case), ..case.clone() };
        &capped
    } else {
        case
    };
    let real = new_book(case.levels, case.t0, case.tick, case.trading);
    let mut run = Run {
        case,
        orc: Oracles::default(),
        real,
        twin: None,
        model: None,
        now: case.t0,
        trading: case.trading,
        ever_off: !case.trading,
        is_market: vec![],
        base: vec![],
        since: vec![],
        fills: vec![],
        reset_at: 0,
        last_queue: BTreeMap::new(),
        qtime: vec![],
        tied: vec![],
        traded_ctr: 0,
        off_since: None,
        reenabled_after_cross: false,
        snapshot_levels: vec![],
        partially_filled: vec![],
        last_requeue: None,
        feat: Features::default(),
    };
    let _ = run.go();
    run.real
}

/// VERIF_NO_QUIET=1 switches the quiet steps off (used to demonstrate what they add)
fn no_quiet() -> bool {
    static V: std::sync::OnceLock<bool> = std::sync::OnceLock::new();
    *V.get_or_init(|| std::env::var("VERIF_NO_QUIET").is_ok())
}

impl<'a> Run<'a> {
    fn go(&mut self) -> Result<(), Failure> {
        for (bid, n, price, vol) in self.case.bulk.clone() {
            for k in 0..n {
                if !self.case.tie && self.now < u64::MAX {
                    let t = self.now + 1;
                    self.set_time(t);
                }
                let r = self.real.create_and_place_order(bid, vol, 7, Some(price));
                if let Some(m) = self.model.as_mut() {
                    if let Ok(id) = m.create(bid, vol, 7, Some(price)) {
                        m.place(id);
                    }
                }
                if r.is_err() {
                    panic!("harness: bulk order rejected ({:?})", r);
                }
                self.is_market.push(false);
                self.base.push(vol as u64);
                self.since.push(0);
                self.fills.push(0);
                self.qtime.push(Some(self.now));
                self.tied.push(self.case.tie && (k > 0 || n > 1));
                self.partially_filled.push(false);
                let now = self.now;
                self.last_queue.insert((bid, price), now);
                if self.case.tie && k > 0 {
                    self.feat.ties_created += 1;
                }
            }
        }
        let mut pre = capture(self.real.as_ref());
        // state 0 audit
        self.audit_state(0, &Op::Advance(0), &pre)?;
        let mut ops: Vec<Op> = self.case.ops.clone();
        let n_core = ops.len();
        if self.case.drain {
            ops.push(Op::Trading(true));
            ops.push(Op::ResetTradeVol);
            ops.push(Op::Advance(1));
            ops.push(Op::CreatePlace { bid: false, vol: 0, trader: 0xD8A1, price: None });
            ops.push(Op::ResetTradeVol);
            ops.push(Op::CreatePlace { bid: true, vol: 0, trader: 0xD8A1, price: None });
        }
        let total = ops.len();
        for (step, op) in ops.iter().enumerate() {
            let is_drain = step >= n_core;
            let mut op = op.clone();
            if is_drain {
                // drain volumes: the whole opposite side, recomputed from the order list
                if let Op::CreatePlace { bid, vol, .. } = &mut op {
                    let want: u64 = pre
                        .orders
                        .iter()
                        .filter(|o| o.status == St::Active && o.bid != *bid)
                        .map(|o| o.vol as u64)
                        .sum();
                    if want == 0 {
                        continue;
                    }
                    *vol = want.min(u32::MAX as u64) as u32;
                }
            }
            let post = self.step(step, &op, &pre, total - step, is_drain)?;
            pre = post;
        }
        // C06, model-free: an order re-entered by the LAST operation of the history (no later op
        // touched the queue) must be executed by the drain after every other order of its price level
        if self.orc.modify && self.case.drain && n_core > 0 {
            if let Some((st, id, bid, price)) = self.last_requeue {
                if st == n_core - 1 {
                    // the fills logged by the drain orders (trader 0xD8A1) at that level, in execution order
                    let drained: Vec<usize> = pre.trades.iter().rev().take_while(|t| pre.orders.get(t.active).map_or(false, |o| o.trader == 0xD8A1)).filter(|t| t.bid == bid && t.price == price).map(|t| t.passive).collect::<Vec<_>>().into_iter().rev().collect();
                    if let Some(pos) = drained.iter().position(|x| *x == id) {
                        if pos + 1 != drained.len() {
                            return Err(Failure::new("C06", "C06 re-entered order does not queue behind the orders already at its price", format!("order {} re-entered at price {} by the last operation; the drain executed the level in the order {:?}", id, price, drained)));
                        }
                    }
                }
            }
        }
        Ok(())
    }

    /// Executes one op; returns the snapshot after it.
    fn step(&mut self, step: usize, op: &Op, pre: &Obs, ops_left: usize, is_drain: bool) -> Result<Obs, Failure> {
        let mut target: Option<usize> = None;
        let mut kind = Kind::Other;
        let mut expect_noop = false;
        let mut create_err: Option<bool> = None; // Some(true) = creation was rejected
        let mut vol_mod: Option<u32> = None;
        let mut price_mod: Option<u32> = None;
        let n_before = pre.orders.len();
        let trades_before = pre.trades.len();

        let concrete;
        let op = if let Op::ModifyRel { r, price, dvol } = op {
            let cur = resolve(&pre.orders, *r).map(|id| pre.orders[id].vol).unwrap_or(1) as i64;
            concrete = Op::Modify { r: *r, price: *price, vol: Some((cur + *dvol as i64).clamp(1, u32::MAX as i64) as u32) };
            &concrete
        } else {
            op
        };

        match op {
            Op::Create { bid, vol, trader, price } | Op::CreatePlace { bid, vol, trader, price } => {
                let placing = matches!(op, Op::CreatePlace { .. });
                let price = &limit_price(*bid, *price, self.case.tick);
                let vol = if is_drain {
                    *vol
                } else {
                    let tradable: u64 = match (placing && self.trading, price) {
                        (true, Some(p)) => pre.orders.iter().filter(|o| o.status == St::Active && o.bid != *bid && if *bid { o.price <= *p } else { o.price >= *p }).map(|o| o.vol as u64).sum(),
                        _ => 0,
                    };
                    self.clamp_vol(pre, *bid, *vol, 0, tradable, price.is_some(), ops_left)
                };
                let on_grid = price.map_or(true, |p| p % self.case.tick == 0);
                if !on_grid {
                    self.feat.offgrid_create += 1;
                    if pre.orders.iter().any(|o| o.status == St::Active) {
                        self.feat.offgrid_create_nonempty = true;
                    }
                }
                if placing && on_grid {
                    if let Some(p) = price {
                        if !self.discipline(*bid, *p) {
                            return Ok(pre.clone());
                        }
                    }
                }
                let (b, v, tr, pr) = (*bid, vol, *trader, *price);
                let r = if placing { self.real.create_and_place_order(b, v, tr, pr) } else { self.real.create_order(b, v, tr, pr) };
                if let Some(t) = self.twin.as_mut() {
                    let r2 = if placing { t.create_and_place_order(b, v, tr, pr) } else { t.create_order(b, v, tr, pr) };
                    if r.is_ok() != r2.is_ok() || r.as_ref().ok() != r2.as_ref().ok() {
                        return Err(self.fail("C07", "C07 reloaded book diverges", step, op, format!("creation result {:?} vs original {:?}", r, r2)));
                    }
                }
                if let Some(m) = self.model.as_mut() {
                    let mr = m.create(b, v, tr, pr);
                    if let Ok(id) = mr {
                        if placing {
                            m.place(id);
                        }
                    }
                    if mr.is_ok() != r.is_ok() || (mr.is_ok() && mr.ok() != r.as_ref().ok().cloned()) {
                        return Err(self.fail("C01", "C01 creation result differs from reference", step, op, format!("got {:?}, model {:?}", r, mr)));
                    }
                }
                match &r {
                    Ok(id) => {
                        if self.orc.grid && !on_grid {
                            return Err(self.fail("C12", "C12 off-grid creation accepted", step, op, format!("returned Ok({})", id)));
                        }
                        if (self.orc.grid || self.orc.lifecycle) && *id != n_before {
                            return Err(self.fail("C04", "C04 ids not dense", step, op, format!("returned id {} with {} orders", id, n_before)));
                        }
                        self.is_market.push(price.is_none());
                        self.base.push(v as u64);
                        self.since.push(0);
                        self.fills.push(0);
                        self.qtime.push(None);
                        self.tied.push(false);
                        self.partially_filled.push(false);
                        if placing {
                            target = Some(*id);
                            kind = Kind::Place;
                        }
                        create_err = Some(false);
                    }
                    Err(e) => {
                        if self.orc.grid && on_grid {
                            return Err(self.fail("C12", "C12 on-grid creation rejected", step, op, format!("returned Err({})", e)));
                        }
                        create_err = Some(true);
                        expect_noop = true;
                    }
                }
            }
            Op::Place(r) | Op::EvNew(r) => match resolve(&pre.orders, *r) {
                None => {
                    self.feat.ops_skipped += 1;
                    return Ok(pre.clone());
                }
                Some(id) => {
                    target = Some(id);
                    kind = Kind::Place;
                    let o = &pre.orders[id];
                    if o.status != St::New {
                        expect_noop = true;
                        self.feat.redundant[0][o.status.code() as usize] += 1;
                    } else if !self.is_market.get(id).cloned().unwrap_or(false) && !self.discipline(o.bid, o.price) {
                        return Ok(pre.clone());
                    }
                    let ev = matches!(op, Op::EvNew(_));
                    self.apply_all(|b| if ev { b.process_event(&Ev::New(id)) } else { b.place_order(id) });
                    if let Some(m) = self.model.as_mut() {
                        m.place(id);
                    }
                }
            },
            Op::Cancel(r) | Op::EvCancel(r) => match resolve(&pre.orders, *r) {
                None => {
                    self.feat.ops_skipped += 1;
                    return Ok(pre.clone());
                }
                Some(id) => {
                    target = Some(id);
                    kind = Kind::Cancel;
                    let o = &pre.orders[id];
                    if o.status != St::Active {
                        expect_noop = true;
                        self.feat.redundant[1][o.status.code() as usize] += 1;
                    } else {
                        if self.partially_filled.get(id).cloned().unwrap_or(false) {
                            self.feat.partial_then_cancel = true;
                        }
                        if self.tied.get(id).cloned().unwrap_or(false) {
                            self.feat.tie_touched = true;
                        }
                    }
                    let ev = matches!(op, Op::EvCancel(_));
                    self.apply_all(|b| if ev { b.process_event(&Ev::Cancel(id)) } else { b.cancel_order(id) });
                    if let Some(m) = self.model.as_mut() {
                        m.cancel(id);
                    }
                }
            },
            Op::Modify { r, price, vol } | Op::EvModify { r, price, vol } => match resolve(&pre.orders, *r) {
                None => {
                    self.feat.ops_skipped += 1;
                    return Ok(pre.clone());
                }
                Some(id) => {
                    target = Some(id);
                    kind = Kind::Modify;
                    let o = pre.orders[id].clone();
                    let mut vol = *vol;
                    let price = limit_price(o.bid, *price, self.case.tick);
                    if o.status != St::Active {
                        expect_noop = true;
                        self.feat.redundant[2][o.status.code() as usize] += 1;
                    } else {
                        if let Some(v) = vol {
                            // charge increases against the volume budget
                            let v = if v > o.vol {
                                let np = price.unwrap_or(o.price);
                                let tradable: u64 = if self.trading && np % self.case.tick == 0 { pre.orders.iter().filter(|x| x.status == St::Active && x.bid != o.bid && if o.bid { x.price <= np } else { x.price >= np }).map(|x| x.vol as u64).sum() } else { 0 };
                                o.vol.saturating_add(self.clamp_vol(pre, o.bid, v - o.vol, o.vol as u64, tradable, true, ops_left))
                            } else {
                                v.max(1)
                            };
                            vol = Some(v);
                        }
                        if price.is_none() && vol.is_none() {
                            expect_noop = true;
                        }
                        let off_grid = price.map_or(false, |p| p % self.case.tick != 0);
                        if off_grid {
                            self.feat.offgrid_modify += 1;
                        }
                        let requeue = price.is_some() || vol.map_or(false, |v| v >= o.vol);
                        if requeue && !off_grid && !self.discipline(o.bid, price.unwrap_or(o.price)) {
                            return Ok(pre.clone());
                        }
                        let shared_before = pre.orders.iter().any(|x| x.id != id && x.status == St::Active && x.bid == o.bid && x.price == o.price);
                        let np = price.unwrap_or(o.price);
                        let shared_after = pre.orders.iter().any(|x| x.id != id && x.status == St::Active && x.bid == o.bid && x.price == np);
                        if shared_before || shared_after {
                            self.feat.modify_shared_level = true;
                        }
                        let k = match (price, vol) {
                            (None, Some(v)) if v < o.vol => 0,
                            (None, Some(v)) if v == o.vol => 1,
                            (None, Some(_)) => 2,
                            (Some(_), None) => 3,
                            (Some(_), Some(_)) => 4,
                            (None, None) => 1,
                        };
                        self.feat.modify_kinds[k] += 1;
                        if self.tied.get(id).cloned().unwrap_or(false) {
                            self.feat.tie_touched = true;
                        }
                        vol_mod = vol;
                        price_mod = price;
                    }
                    let ev = matches!(op, Op::EvModify { .. });
                    self.apply_all(|b| if ev { b.process_event(&Ev::Modify(id, price, vol)) } else { b.modify_order(id, price, vol) });
                    if let Some(m) = self.model.as_mut() {
                        m.modify(id, price, vol);
                    }
                }
            },
            Op::ModifyRel { .. } => unreachable!("harness: ModifyRel is made concrete above"),
            Op::Advance(dt) => {
                // (clock discipline may already have moved the clock a little past the cap: never go backwards)
                let t = self.now.saturating_add(*dt).min(clock_cap(self.case)).max(self.now);
                self.set_time(t);
                expect_noop = true;
            }
            Op::Trading(on) => {
                let on = *on;
                self.apply_all(|b| if on { b.enable_trading() } else { b.disable_trading() });
                if let Some(m) = self.model.as_mut() {
                    m.trading = on;
                }
                if self.trading != on {
                    self.feat.toggles += 1;
                }
                if !on {
                    self.ever_off = true;
                    if self.trading {
                        self.off_since = Some(trades_before);
                    }
                } else if !self.trading {
                    self.off_since = None;
                    let v = &pre.views;
                    if v.bid_vol > 0 && v.ask_vol > 0 && v.bid_ask.0 >= v.bid_ask.1 {
                        self.reenabled_after_cross = true;
                    }
                }
                self.trading = on;
                expect_noop = true;
            }
            Op::ResetTradeVol => {
                self.apply_all(|b| b.reset_trade_vol());
                if let Some(m) = self.model.as_mut() {
                    m.reset_trade_vol();
                }
                self.reset_at = trades_before;
                self.traded_ctr = 0;
                self.feat.resets += 1;
            }
            Op::Reload(how) => {
                let res = std::panic::catch_unwind(std::panic::AssertUnwindSafe(|| reload_book(self.real.as_ref(), *how)));
                let loaded = match res {
                    Ok(Ok(b)) => b,
                    Ok(Err(e)) => return Err(self.fail("C07", "C07 snapshot fails to load", step, op, e)),
                    Err(_) => return Err(self.fail("C07", "C07 snapshot load panics", step, op, crate::engine::last_panic())),
                };
                self.feat.reloads += 1;
                // snapshot statistics
                for o in pre.orders.iter() {
                    self.feat.snapshot_statuses[o.status.code() as usize] = true;
                }
                let mut lv: BTreeMap<(bool, u32), u32> = BTreeMap::new();
                for o in pre.orders.iter().filter(|o| o.status == St::Active) {
                    *lv.entry((o.bid, o.price)).or_default() += 1;
                }
                for (k, n) in lv {
                    if n >= 2 {
                        self.feat.snapshot_deep_queue = true;
                        self.snapshot_levels.push(k);
                    }
                }
                let old = std::mem::replace(&mut self.real, loaded);
                if self.orc.lockstep && self.twin.is_none() {
                    self.twin = Some(old);
                }
                expect_noop = true;
            }
        }
        self.feat.ops_executed += 1;

        let quiet = !is_drain && ops_left > 1 && (self.case.quiet >> (step % 64)) & 1 == 1 && !no_quiet();
        let cap = |b: &dyn DynBook, tick: u32, levels: usize| -> Obs {
            if quiet {
                let orders = b.orders();
                let views = crate::obs::recompute_views(&orders, tick, levels);
                Obs { time: b.get_time(), trade_vol: b.get_trade_vol(), orders, trades: b.trades(), views }
            } else {
                capture(b)
            }
        };
        let post = cap(self.real.as_ref(), self.case.tick, self.case.levels);
        if quiet {
            self.feat.quiet_ops += 1;
        }
        self.feat.max_orders = self.feat.max_orders.max(post.orders.len());
        if let Some(id) = target {
            if id >= post.orders.len() || id >= self.is_market.len() {
                return Err(self.fail("C04", "C04 returned order id does not exist in the order list", step, op, format!("id {} with {} orders", id, post.orders.len())));
            }
        }
        if self.twin.is_some() {
            self.feat.states_after_reload += 1;
        }

        // ---- lock-step original vs reloaded (C07)
        if let Some(t) = self.twin.as_ref() {
            let o = cap(t.as_ref(), self.case.tick, self.case.levels);
            if let Some(d) = diff_obs(&post, &o) {
                return Err(self.fail("C07", "C07 reloaded book diverges", step, op, format!("reloaded vs original: {}", d)));
            }
        }

        // ---- harness bookkeeping from the log (model-free)
        let new_trades = &post.trades[trades_before.min(post.trades.len())..];
        if let (Kind::Modify, Some(id), false) = (kind, target, expect_noop) {
            // effective modification of an active order
            if let Some(v) = vol_mod {
                let off_grid_ignored = price_mod.map_or(false, |p| p % self.case.tick != 0) && post.orders[id].price != price_mod.unwrap();
                if !off_grid_ignored {
                    if id < self.base.len() {
                        self.base[id] = v as u64;
                        self.since[id] = 0;
                    }
                }
            }
            if !new_trades.is_empty() {
                self.feat.modify_traded += 1;
                if post.orders[id].status == St::Active {
                    self.feat.modify_cross_partial = true;
                }
            }
        }
        for t in new_trades {
            self.traded_ctr += t.vol as u64;
            if t.active < self.since.len() {
                self.since[t.active] += t.vol as u64;
                self.fills[t.active] += 1;
            }
            if t.passive < self.since.len() {
                self.since[t.passive] += t.vol as u64;
                self.fills[t.passive] += 1;
                if self.fills[t.passive] == 2 {
                    self.feat.orders_multi_fill += 1;
                }
                if self.tied[t.passive] {
                    self.feat.tie_touched = true;
                }
                // feature bookkeeping only; a wrong implementation may log ids the harness has not
                // seen as resting orders, so nothing here may index blindly
                if let (true, Some(pp), Some(po)) = (pre.orders.len() <= 4096, pre.orders.get(t.passive), post.orders.get(t.passive)) {
                    if po.status == St::Active {
                        self.partially_filled[t.passive] = true;
                        self.feat.partial_head_fill = true;
                    }
                    let side_count = pre.orders.iter().filter(|o| o.status == St::Active && o.bid == pp.bid).count();
                    if side_count >= 2 {
                        self.feat.priority_exercised = true;
                    }
                    let lvl = pre.orders.iter().filter(|o| o.status == St::Active && o.bid == pp.bid && o.price == pp.price).count();
                    if lvl >= 3 {
                        self.feat.depth3_at_fill = true;
                    }
                    if self.snapshot_levels.contains(&(pp.bid, pp.price)) {
                        self.feat.snapshot_queue_traded = true;
                    }
                }
            }
        }
        self.feat.trades += new_trades.len() as u64;
        {
            // C02 non-triviality: an aggregate was decremented and a side still has >= 2 levels
            let decremented = !new_trades.is_empty() || (!expect_noop && matches!(kind, Kind::Cancel | Kind::Modify));
            if decremented {
                for side in [true, false] {
                    let mut ps: Vec<u32> = post.orders.iter().filter(|o| o.status == St::Active && o.bid == side).map(|o| o.price).collect();
                    ps.sort_unstable();
                    ps.dedup();
                    if ps.len() >= 2 {
                        self.feat.multi_level_decrement = true;
                    }
                }
            }
        }
        if !new_trades.is_empty() {
            let mut prices: Vec<u32> = new_trades.iter().map(|t| t.price).collect();
            prices.dedup();
            if prices.len() >= 2 {
                self.feat.multi_level_sweep = true;
            }
            if let Some(id) = target {
                let o = &post.orders[id];
                if o.bid {
                    self.feat.bid_aggressed = true
                } else {
                    self.feat.ask_aggressed = true
                }
                if self.is_market.get(id).cloned().unwrap_or(false) && o.status == St::Cancelled {
                    self.feat.market_remainder_discarded = true;
                }
                if !self.is_market.get(id).cloned().unwrap_or(false) && o.status == St::Active {
                    self.feat.limit_remainder_rested = true;
                }
                if self.reenabled_after_cross {
                    self.feat.aggressor_after_reenable = true;
                }
            }
        }
        // queue-time bookkeeping for tie statistics
        if let Some(id) = target {
            if id < post.orders.len() {
                let o = &post.orders[id];
                let requeued = match kind {
                    Kind::Place => !expect_noop && o.status == St::Active,
                    Kind::Modify => !expect_noop && o.status == St::Active && (price_mod.is_some() || vol_mod.map_or(false, |v| v >= pre.orders[id].vol)),
                    _ => false,
                };
                if requeued {
                    if let Some(q) = self.qtime.get_mut(id) {
                        *q = Some(self.now);
                    }
                    let mut hit = false;
                    for x in post.orders.iter() {
                        if x.id != id && x.status == St::Active && x.bid == o.bid && x.price == o.price && self.qtime.get(x.id).cloned().flatten() == Some(self.now) {
                            if let Some(t) = self.tied.get_mut(x.id) {
                                *t = true;
                            }
                            hit = true;
                        }
                    }
                    if hit {
                        if let Some(t) = self.tied.get_mut(id) {
                            *t = true;
                        }
                    }
                }
            }
        }

        // ---- oracles
        if self.orc.model {
            if let Some(d) = diff_model(&post, self.model.as_ref().unwrap(), self.case.levels) {
                let prop = if self.case.tie { "C05" } else { "C01" };
                let sig = if self.case.tie { "C05 book diverges from reference on a history with equal timestamps" } else { "C01 book diverges from reference engine" };
                let (prop, sig) = if kind == Kind::Modify && !self.case.tie { ("C06", "C06 modification diverges from reference engine") } else { (prop, sig) };
                let (prop, sig) = if self.ever_off && !self.case.tie { ("C13", "C13 trading-flag history diverges from reference engine") } else { (prop, sig) };
                return Err(self.fail(prop, sig, step, op, d));
            }
        }
        self.audit_state(step, op, &post)?;
        if self.orc.ledger {
            self.audit_ledger(step, op, pre, &post, target, kind, trades_before)?;
        }
        if self.orc.lifecycle {
            self.audit_lifecycle(step, op, pre, &post, target, kind, expect_noop, create_err)?;
        }
        if self.orc.grid {
            if create_err == Some(true) {
                if let Some(d) = diff_obs(pre, &post) {
                    return Err(self.fail("C12", "C12 rejected creation left a trace", step, op, d));
                }
            }
        }
        if self.orc.trading {
            self.audit_trading(step, op, pre, &post, target, kind, trades_before)?;
        }
        if self.orc.modify && kind == Kind::Modify && !expect_noop {
            self.audit_modify(step, op, pre, &post, target.unwrap(), price_mod, vol_mod, trades_before)?;
        }
        Ok(post)
    }

    /// C02 (views) and C12 (grid) state invariants.
    fn audit_state(&mut self, step: usize, op: &Op, s: &Obs) -> Result<(), Failure> {
        self.feat.states_audited += 1;
        let v = &s.views;
        if v.bid_vol == 0 || v.ask_vol == 0 {
            self.feat.empty_side_seen = true;
        }
        let occ = |lv: &Vec<(u32, u32)>| lv.iter().filter(|x| x.1 > 0).count();
        if occ(&v.bid_levels) >= 2 || occ(&v.ask_levels) >= 2 {
            // a gap: an empty level between two occupied ones
            for lv in [&v.bid_levels, &v.ask_levels] {
                let last = lv.iter().rposition(|x| x.1 > 0).unwrap_or(0);
                if lv[..last].iter().any(|x| x.1 == 0) {
                    self.feat.level_gap_seen = true;
                }
            }
        }
        let crossed = v.bid_vol > 0 && v.ask_vol > 0 && v.bid_ask.0 >= v.bid_ask.1;
        if crossed {
            self.feat.crossed_states += 1;
            if !self.trading {
                self.feat.crossed_while_off = true;
            }
        }
        if self.orc.views {
            let want = recompute_views(&s.orders, self.case.tick, self.case.levels);
            if let Some(d) = diff_views(v, &want) {
                return Err(self.fail("C02", "C02 published view differs from resting orders", step, op, d));
            }
            if !self.ever_off && crossed {
                return Err(self.fail("C02", "C02 book crossed although trading was never disabled", step, op, format!("bid_ask {:?}", v.bid_ask)));
            }
        }
        if self.orc.grid {
            for o in s.orders.iter() {
                if !self.is_market.get(o.id).cloned().unwrap_or(false) && o.price % self.case.tick != 0 {
                    let sig = if matches!(op, Op::Modify { .. } | Op::EvModify { .. }) { "C12 modify_order accepts off-grid price" } else { "C12 off-grid price in book" };
                    return Err(self.fail("C12", sig, step, op, format!("order {} has price {} with tick {}", o.id, o.price, self.case.tick)));
                }
            }
            // level arrays account for all resting volume within their range
            let span = (self.case.levels as u64 - 1) * self.case.tick as u64;
            let (bb, ba) = v.bid_ask;
            let mut wb: u64 = 0;
            let mut wa: u64 = 0;
            for o in s.orders.iter().filter(|o| o.status == St::Active) {
                if o.bid && (o.price as u64) + span >= bb as u64 {
                    wb += o.vol as u64;
                }
                if !o.bid && (o.price as u64) <= ba as u64 + span {
                    wa += o.vol as u64;
                }
            }
            let gb: u64 = v.bid_levels.iter().map(|x| x.0 as u64).sum();
            let ga: u64 = v.ask_levels.iter().map(|x| x.0 as u64).sum();
            if gb != wb || ga != wa {
                return Err(self.fail("C12", "C12 level data does not account for resting volume in range", step, op, format!("levels sum (bid {}, ask {}), resting in range (bid {}, ask {})", gb, ga, wb, wa)));
            }
        }
        Ok(())
    }

    #[allow(clippy::too_many_arguments)]
    fn audit_ledger(&mut self, step: usize, op: &Op, pre: &Obs, post: &Obs, target: Option<usize>, kind: Kind, trades_before: usize) -> Result<(), Failure> {
        let f = |s: &Self, sig: &str, m: String| Err(s.fail("C03", sig, step, op, m));
        if post.trades.len() < trades_before || post.trades[..trades_before] != pre.trades[..] {
            return f(self, "C03 logged trades changed", "the previous log is not a prefix of the new log".to_string());
        }
        let new_trades = &post.trades[trades_before..];
        if !new_trades.is_empty() && !matches!(kind, Kind::Place | Kind::Modify) {
            return f(self, "C03 trade logged by a non-matching operation", format!("{} new trades", new_trades.len()));
        }
        let mut last_price: Option<u32> = None;
        for (k, t) in new_trades.iter().enumerate() {
            if t.t != self.now {
                return f(self, "C03 trade time is not the book time at execution", format!("trade {:?}, book time {}", t, self.now));
            }
            if t.vol == 0 {
                return f(self, "C03 zero-volume trade", format!("{:?}", t));
            }
            if t.active >= post.orders.len() || t.passive >= post.orders.len() {
                return f(self, "C03 trade names a non-existent order", format!("{:?}", t));
            }
            let a = &post.orders[t.active];
            let p = &post.orders[t.passive];
            if Some(t.active) != target {
                return f(self, "C03 aggressor is not the order acted on", format!("{:?}, operation target {:?}", t, target));
            }
            if a.bid == p.bid {
                return f(self, "C03 trade between two orders of one side", format!("{:?}", t));
            }
            if t.bid != p.bid {
                return f(self, "C03 trade side is not the resting order's side", format!("{:?}, passive side bid={}", t, p.bid));
            }
            let pp = pre.orders.get(t.passive).map(|o| o.price);
            if Some(t.price) != pp || t.price != p.price {
                return f(self, "C03 trade price is not the resting order's price", format!("{:?}, passive price {:?}", t, pp));
            }
            let admits = if a.bid { a.price >= t.price } else { a.price <= t.price };
            if !admits {
                return f(self, "C03 aggressor's limit does not admit the trade price", format!("{:?}, aggressor limit {}", t, a.price));
            }
            // execution order: successive fills of one aggressor never improve in price, and only
            // the last passive order of a sweep may be left partially filled
            if let Some(lp) = last_price {
                let ok = if a.bid { t.price >= lp } else { t.price <= lp };
                if !ok {
                    return f(self, "C03 fills not logged in execution order", format!("price {} after {}", t.price, lp));
                }
            }
            last_price = Some(t.price);
            if k + 1 < new_trades.len() && p.status != St::Filled {
                return f(self, "C03 sweep continued past a partially filled resting order", format!("{:?}", t));
            }
            if let Some(prev) = post.trades[..trades_before + k].last() {
                if prev.t > t.t {
                    return f(self, "C03 trade times decrease", format!("{} after {}", t.t, prev.t));
                }
            }
        }
        for o in post.orders.iter() {
            if o.id < self.base.len() {
                let want = self.base[o.id] as i128 - self.since[o.id] as i128;
                if o.vol as i128 != want {
                    return f(self, "C03 order volume does not reconcile with the log", format!("order {:?}: submitted {}, logged fills {}, expected remaining {}", o, self.base[o.id], self.since[o.id], want));
                }
            }
        }
        let sum: u64 = post.trades[self.reset_at.min(post.trades.len())..].iter().map(|t| t.vol as u64).sum();
        if post.trade_vol as u64 != sum {
            return f(self, "C03 cumulative traded volume differs from the log", format!("get_trade_vol {} vs logged since reset {}", post.trade_vol, sum));
        }
        Ok(())
    }

    #[allow(clippy::too_many_arguments)]
    fn audit_lifecycle(&mut self, step: usize, op: &Op, pre: &Obs, post: &Obs, target: Option<usize>, kind: Kind, expect_noop: bool, create_err: Option<bool>) -> Result<(), Failure> {
        let f = |s: &Self, sig: &str, m: String| Err(s.fail("C04", sig, step, op, m));
        let created = create_err == Some(false);
        if post.orders.len() != pre.orders.len() + created as usize {
            return f(self, "C04 order list length", format!("{} -> {}", pre.orders.len(), post.orders.len()));
        }
        for (i, o) in post.orders.iter().enumerate() {
            if o.id != i {
                return f(self, "C04 ids not dense", format!("position {} holds id {}", i, o.id));
            }
        }
        if expect_noop {
            // second place, cancel/modify of a non-active order, clock change, flag change,
            // rejected creation: nothing observable changes (except the clock itself)
            let mut a = pre.clone();
            a.time = post.time;
            if let Some(d) = diff_obs(&a, post) {
                let sig = match (kind, op) {
                    (Kind::Place, _) => "C04 redundant place changed the book",
                    (Kind::Cancel, _) => "C04 redundant cancel changed the book",
                    (Kind::Modify, _) => "C04 redundant modify changed the book",
                    (_, Op::Advance(_)) => "C04 clock change changed the book",
                    (_, Op::Reload(_)) => "C07 reload changed the book",
                    (_, Op::Trading(_)) => "C13 trading toggle changed the book",
                    _ => "C04 no-op request changed the book",
                };
                let prop = &sig[..3];
                return Err(self.fail(prop, sig, step, op, d));
            }
            if let Some(id) = target {
                let st = pre.orders[id].status;
                if st.terminal() && pre.orders.iter().any(|o| o.status == St::Active) {
                    self.feat.redundant_terminal_nonempty = true;
                }
            }
        }
        let passive: std::collections::HashSet<usize> = post.trades[pre.trades.len().min(post.trades.len())..].iter().map(|t| t.passive).collect();
        for (a, b) in pre.orders.iter().zip(post.orders.iter()) {
            if a.id != b.id || a.bid != b.bid || a.trader != b.trader {
                return f(self, "C04 id/side/trader changed", format!("{:?} -> {:?}", a, b));
            }
            if a.status.terminal() && a != b {
                return f(self, "C04 terminal order changed", format!("{:?} -> {:?}", a, b));
            }
            let market = self.is_market.get(a.id).cloned().unwrap_or(false);
            let ok = match (a.status, b.status) {
                (x, y) if x == y => true,
                (St::New, St::Active) => !market,
                // fills need trading to be enabled; the unfilled remainder of a market order is
                // cancelled only after it was allowed to match, otherwise it is rejected
                (St::New, St::Filled) => self.trading,
                (St::New, St::Cancelled) => market && self.trading,
                (St::New, St::Rejected) => market && !self.trading,
                (St::Active, St::Filled) => self.trading,
                (St::Active, St::Cancelled) => !market,
                _ => false,
            };
            if !ok {
                return f(self, "C04 illegal status transition", format!("{:?} -> {:?} (market order: {})", a, b, market));
            }
            if a.status != b.status {
                // who may move: the target, or a passive counterparty being filled
                let is_target = Some(a.id) == target;
                let may = is_target || (b.status == St::Filled && passive.contains(&a.id));
                if !may {
                    return f(self, "C04 operation changed the status of an unrelated order", format!("{:?} -> {:?}", a, b));
                }
                if is_target && a.status == St::New && kind != Kind::Place {
                    return f(self, "C04 unplaced order activated by a non-place request", format!("{:?} -> {:?}", a, b));
                }
            }
            if a.status == St::New && b.status != St::New && b.arr_time != self.now {
                return f(self, "C04 arrival time is not the placement time", format!("{:?} placed at {}", b, self.now));
            }
            if a.status != St::New && a.arr_time != b.arr_time {
                return f(self, "C04 arrival time changed after placement", format!("{:?} -> {:?}", a, b));
            }
            if !b.status.terminal() && a.end_time != b.end_time {
                return f(self, "C04 end time changed before termination", format!("{:?} -> {:?}", a, b));
            }
            if !a.status.terminal() && b.status.terminal() && b.end_time != self.now {
                return f(self, "C04 end time is not the termination time", format!("{:?} terminated at {}", b, self.now));
            }
            if Some(a.id) != target && !passive.contains(&a.id) && a != b {
                return f(self, "C04 operation changed an unrelated order", format!("{:?} -> {:?}", a, b));
            }
        }
        // an order that has been filled completely is Filled (volumes and modify volumes are >= 1 in these
        // histories, so an order with nothing left can only have been executed)
        for b in post.orders.iter() {
            if b.vol == 0 && b.start_vol >= 1 && matches!(b.status, St::Active | St::Cancelled) {
                return f(self, "C04 completely filled order is not Filled", format!("{:?}", b));
            }
        }
        if created {
            let b = post.orders.last().unwrap();
            if kind != Kind::Place && b.status != St::New {
                return f(self, "C04 created order is not New", format!("{:?}", b));
            }
            if kind == Kind::Place && b.arr_time != self.now {
                return f(self, "C04 arrival time is not the placement time", format!("{:?} placed at {}", b, self.now));
            }
            if b.status.terminal() && b.end_time != self.now {
                return f(self, "C04 end time is not the termination time", format!("{:?} terminated at {}", b, self.now));
            }
            let market = self.is_market.get(b.id).cloned().unwrap_or(false);
            let ok = match b.status {
                St::New => kind != Kind::Place,
                St::Active => !market,
                St::Filled => self.trading,
                St::Cancelled => market && self.trading,
                St::Rejected => market && !self.trading,
                St::Other => false,
            };
            if !ok {
                return f(self, "C04 illegal status transition", format!("New -> {:?} (market order: {})", b, market));
            }
        }
        Ok(())
    }

    #[allow(clippy::too_many_arguments)]
    fn audit_trading(&mut self, step: usize, op: &Op, pre: &Obs, post: &Obs, target: Option<usize>, kind: Kind, trades_before: usize) -> Result<(), Failure> {
        let f = |s: &Self, sig: &str, m: String| Err(s.fail("C13", sig, step, op, m));
        if let Op::Trading(_) = op {
            if let Some(d) = diff_obs(pre, post) {
                return f(self, "C13 trading toggle changed the book", d);
            }
        }
        if !self.trading {
            if post.trades.len() != trades_before {
                return f(self, "C13 trade recorded while trading disabled", format!("{:?}", post.trades.last()));
            }
            if let (Some(id), Kind::Place) = (target, kind) {
                if self.is_market.get(id).cloned().unwrap_or(false) && pre.orders.get(id).map_or(true, |o| o.status == St::New) {
                    let o = &post.orders[id];
                    if o.status != St::Rejected || o.end_time != self.now {
                        return f(self, "C13 market order not rejected while trading disabled", format!("{:?}", o));
                    }
                    if pre.views != post.views {
                        return f(self, "C13 rejected market order touched the book", format!("{:?}", diff_views(&post.views, &pre.views)));
                    }
                    self.feat.rejected_market += 1;
                } else if !self.is_market.get(id).cloned().unwrap_or(false) && pre.orders.get(id).map_or(true, |o| o.status == St::New) {
                    let o = &post.orders[id];
                    if o.status != St::Active || o.vol != o.start_vol {
                        return f(self, "C13 limit order does not rest while trading disabled", format!("{:?}", o));
                    }
                    let v = &post.views;
                    if v.bid_vol > 0 && v.ask_vol > 0 && v.bid_ask.0 >= v.bid_ask.1 {
                        self.feat.cross_place_while_off += 1;
                    }
                }
            }
        }
        Ok(())
    }

    /// Model-free modification side conditions (C06).
    #[allow(clippy::too_many_arguments)]
    fn audit_modify(&mut self, step: usize, op: &Op, pre: &Obs, post: &Obs, id: usize, price: Option<u32>, vol: Option<u32>, trades_before: usize) -> Result<(), Failure> {
        let f = |s: &Self, sig: &str, m: String| Err(s.fail("C06", sig, step, op, m));
        let a = &pre.orders[id];
        let b = &post.orders[id];
        if a.id != b.id || a.bid != b.bid || a.trader != b.trader || a.arr_time != b.arr_time || a.start_vol != b.start_vol {
            return f(self, "C06 modification changed id/side/trader/arrival/start volume", format!("{:?} -> {:?}", a, b));
        }
        let off_grid = price.map_or(false, |p| p % self.case.tick != 0);
        if off_grid {
            return Ok(());
        }
        let reduction = price.is_none() && vol.map_or(false, |v| v < a.vol);
        if reduction {
            if post.trades.len() != trades_before {
                return f(self, "C06 pure reduction traded", format!("{:?}", post.trades.last()));
            }
            let mut want = a.clone();
            want.vol = vol.unwrap();
            if *b != want {
                return f(self, "C06 pure reduction changed more than the volume", format!("{:?} -> {:?}", a, b));
            }
            for (x, y) in pre.orders.iter().zip(post.orders.iter()) {
                if x.id != id && x != y {
                    return f(self, "C06 pure reduction changed another order", format!("{:?} -> {:?}", x, y));
                }
            }
        } else {
            let np = price.unwrap_or(a.price);
            let nv = vol.unwrap_or(a.vol) as u64;
            let traded: u64 = post.trades[trades_before..].iter().map(|t| t.vol as u64).sum();
            if b.price != np {
                return f(self, "C06 re-entered order does not carry the new price", format!("{:?} -> {:?}", a, b));
            }
            if b.vol as u64 + traded != nv {
                return f(self, "C06 re-entered order does not carry the new volume", format!("{:?} -> {:?}, traded {}", a, b, traded));
            }
            if b.status == St::Active && traded == 0 {
                self.last_requeue = Some((step, id, b.bid, b.price));
            }
            if self.trading && b.status == St::Active {
                // must not rest crossed against the opposite touch
                let opp = pre.orders.iter().zip(post.orders.iter()).filter(|(_, y)| y.status == St::Active && y.bid != b.bid).map(|(_, y)| y.price);
                let crossed = if b.bid { opp.min().map_or(false, |p| p <= b.price) } else { opp.max().map_or(false, |p| p >= b.price) };
                if crossed {
                    return f(self, "C06 re-priced order rests although it crosses", format!("{:?}", b));
                }
            }
        }
        Ok(())
    }
}
