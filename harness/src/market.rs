//! Object-safe facade over `Market<ASSETS, LEVELS>`, multi-asset histories and their interpreter
//! (lock-step against stand-alone real books: C14; reload lock-step: C07; grid: C12; flag: C13).

use crate::dynbook::{new_book, side_of, DynBook, Ev, L2};
use crate::model::{OrderRec, St};
use crate::obs::{capture, diff_obs, Obs};
use crate::ops::{Failure, Op, Ref};
use bourse_book::types::Event;
use bourse_book::Market;
use serde::{Deserialize, Serialize};

pub const MARKET_LEVELS: [usize; 6] = [1, 2, 3, 5, 10, 24];
/// asset counts beyond 4 that are instantiated (with 3 and 10 levels only): two-digit asset indices, counts that
/// are / are not powers of two
pub const MANY_ASSETS: [usize; 4] = [8, 11, 12, 16];

pub trait DynMarket {
    fn assets(&self) -> usize;
    fn levels(&self) -> usize;
    fn book(&self, a: usize) -> &dyn DynBook;
    /// the asset's own book, mutably (`Market::get_order_book_mut`): operations applied to it directly
    fn book_mut(&mut self, a: usize) -> &mut dyn DynBook;
    fn get_time(&self) -> u64;
    fn set_time(&mut self, t: u64);
    fn enable_trading(&mut self);
    fn disable_trading(&mut self);
    fn get_trade_vols(&self) -> Vec<u32>;
    fn reset_trade_vols(&mut self);
    fn bid_vols(&self) -> Vec<u32>;
    fn ask_vols(&self) -> Vec<u32>;
    fn bid_best_vols(&self) -> Vec<u32>;
    fn ask_best_vols(&self) -> Vec<u32>;
    fn bid_best_vol_and_orders(&self) -> Vec<(u32, u32)>;
    fn ask_best_vol_and_orders(&self) -> Vec<(u32, u32)>;
    fn bid_levels(&self) -> Vec<Vec<(u32, u32)>>;
    fn ask_levels(&self) -> Vec<Vec<(u32, u32)>>;
    fn bid_asks(&self) -> Vec<(u32, u32)>;
    fn level_2_data(&self) -> Vec<L2>;
    fn order(&self, id: (usize, usize)) -> OrderRec;
    fn get_orders(&self, a: usize) -> Vec<OrderRec>;
    fn create_order(&mut self, a: usize, bid: bool, vol: u32, trader: u32, price: Option<u32>) -> Result<(usize, usize), String>;
    fn create_and_place_order(&mut self, a: usize, bid: bool, vol: u32, trader: u32, price: Option<u32>) -> Result<(usize, usize), String>;
    fn place_order(&mut self, id: (usize, usize));
    fn cancel_order(&mut self, id: (usize, usize));
    fn modify_order(&mut self, id: (usize, usize), price: Option<u32>, vol: Option<u32>);
    fn process_event(&mut self, a: usize, ev: &Ev);
    fn to_json(&self, pretty: bool) -> String;
    fn save_json(&self, path: &std::path::Path, pretty: bool) -> Result<(), String>;
}

impl<const A: usize, const L: usize> DynMarket for Market<A, L> {
    fn assets(&self) -> usize {
        A
    }
    fn levels(&self) -> usize {
        L
    }
    fn book(&self, a: usize) -> &dyn DynBook {
        self.get_order_book(a)
    }
    fn book_mut(&mut self, a: usize) -> &mut dyn DynBook {
        self.get_order_book_mut(a)
    }
    fn get_time(&self) -> u64 {
        Market::get_time(self)
    }
    fn set_time(&mut self, t: u64) {
        let _ = Market::set_time(self, t);
    }
    fn enable_trading(&mut self) {
        let _ = Market::enable_trading(self);
    }
    fn disable_trading(&mut self) {
        let _ = Market::disable_trading(self);
    }
    fn get_trade_vols(&self) -> Vec<u32> {
        Market::get_trade_vols(self).to_vec()
    }
    fn reset_trade_vols(&mut self) {
        let _ = Market::reset_trade_vols(self);
    }
    fn bid_vols(&self) -> Vec<u32> {
        Market::bid_vols(self).to_vec()
    }
    fn ask_vols(&self) -> Vec<u32> {
        Market::ask_vols(self).to_vec()
    }
    fn bid_best_vols(&self) -> Vec<u32> {
        Market::bid_best_vols(self).to_vec()
    }
    fn ask_best_vols(&self) -> Vec<u32> {
        Market::ask_best_vols(self).to_vec()
    }
    fn bid_best_vol_and_orders(&self) -> Vec<(u32, u32)> {
        Market::bid_best_vol_and_orders(self).to_vec()
    }
    fn ask_best_vol_and_orders(&self) -> Vec<(u32, u32)> {
        Market::ask_best_vol_and_orders(self).to_vec()
    }
    fn bid_levels(&self) -> Vec<Vec<(u32, u32)>> {
        Market::bid_levels(self).iter().map(|x| x.to_vec()).collect()
    }
    fn ask_levels(&self) -> Vec<Vec<(u32, u32)>> {
        Market::ask_levels(self).iter().map(|x| x.to_vec()).collect()
    }
    fn bid_asks(&self) -> Vec<(u32, u32)> {
        Market::bid_asks(self).to_vec()
    }
    fn level_2_data(&self) -> Vec<L2> {
        Market::level_2_data(self).iter().map(crate::dynbook::l2_of).collect()
    }
    fn order(&self, id: (usize, usize)) -> OrderRec {
        crate::dynbook::order_rec(Market::order(self, id))
    }
    fn get_orders(&self, a: usize) -> Vec<OrderRec> {
        Market::get_orders(self, a).into_iter().map(crate::dynbook::order_rec).collect()
    }
    fn create_order(&mut self, a: usize, bid: bool, vol: u32, trader: u32, price: Option<u32>) -> Result<(usize, usize), String> {
        Market::create_order(self, a, side_of(bid), vol, trader, price).map_err(|e| e.to_string())
    }
    fn create_and_place_order(&mut self, a: usize, bid: bool, vol: u32, trader: u32, price: Option<u32>) -> Result<(usize, usize), String> {
        Market::create_and_place_order(self, a, side_of(bid), vol, trader, price).map_err(|e| e.to_string())
    }
    fn place_order(&mut self, id: (usize, usize)) {
        let _ = Market::place_order(self, id);
    }
    fn cancel_order(&mut self, id: (usize, usize)) {
        let _ = Market::cancel_order(self, id);
    }
    fn modify_order(&mut self, id: (usize, usize), price: Option<u32>, vol: Option<u32>) {
        let _ = Market::modify_order(self, id, price, vol);
    }
    fn process_event(&mut self, a: usize, ev: &Ev) {
        let e = match *ev {
            Ev::New(i) => Event::New { order_id: (a, i) },
            Ev::Cancel(i) => Event::Cancellation { order_id: (a, i) },
            Ev::Modify(i, p, v) => Event::Modify { order_id: (a, i), new_price: p, new_vol: v },
        };
        let _ = Market::process_event(self, e);
    }
    fn to_json(&self, pretty: bool) -> String {
        if pretty {
            serde_json::to_string_pretty(self).unwrap()
        } else {
            serde_json::to_string(self).unwrap()
        }
    }
    fn save_json(&self, path: &std::path::Path, pretty: bool) -> Result<(), String> {
        Market::save_json(self, path, pretty).map_err(|e| e.to_string())
    }
}

macro_rules! by_al {
    ($a:expr, $l:expr, $f:ident, $($arg:expr),*) => {
        match ($a, $l) {
            (1, 1) => $f::<1, 1>($($arg),*), (1, 2) => $f::<1, 2>($($arg),*), (1, 3) => $f::<1, 3>($($arg),*), (1, 5) => $f::<1, 5>($($arg),*), (1, 10) => $f::<1, 10>($($arg),*), (1, 24) => $f::<1, 24>($($arg),*),
            (2, 1) => $f::<2, 1>($($arg),*), (2, 2) => $f::<2, 2>($($arg),*), (2, 3) => $f::<2, 3>($($arg),*), (2, 5) => $f::<2, 5>($($arg),*), (2, 10) => $f::<2, 10>($($arg),*), (2, 24) => $f::<2, 24>($($arg),*),
            (3, 1) => $f::<3, 1>($($arg),*), (3, 2) => $f::<3, 2>($($arg),*), (3, 3) => $f::<3, 3>($($arg),*), (3, 5) => $f::<3, 5>($($arg),*), (3, 10) => $f::<3, 10>($($arg),*), (3, 24) => $f::<3, 24>($($arg),*),
            (4, 1) => $f::<4, 1>($($arg),*), (4, 2) => $f::<4, 2>($($arg),*), (4, 3) => $f::<4, 3>($($arg),*), (4, 5) => $f::<4, 5>($($arg),*), (4, 10) => $f::<4, 10>($($arg),*), (4, 24) => $f::<4, 24>($($arg),*),
            (8, 3) => $f::<8, 3>($($arg),*), (8, 10) => $f::<8, 10>($($arg),*), (11, 3) => $f::<11, 3>($($arg),*), (11, 10) => $f::<11, 10>($($arg),*),
            (12, 3) => $f::<12, 3>($($arg),*), (12, 10) => $f::<12, 10>($($arg),*), (16, 3) => $f::<16, 3>($($arg),*), (16, 10) => $f::<16, 10>($($arg),*),
            _ => panic!("harness: unsupported market shape ({}, {})", $a, $l),
        }
    };
}


#[allow(unused_imports)]
pub(crate) use by_al;

fn mk<const A: usize, const L: usize>(t: u64, ticks: &[u32], trading: bool) -> Box<dyn DynMarket> {
    let mut tk = [1u32; A];
    tk.copy_from_slice(&ticks[..A]);
    Box::new(Market::<A, L>::new(t, tk, trading))
}
fn from_str<const A: usize, const L: usize>(s: &str) -> Result<Box<dyn DynMarket>, String> {
    serde_json::from_str::<Market<A, L>>(s).map(|m| Box::new(m) as Box<dyn DynMarket>).map_err(|e| e.to_string())
}
fn from_file<const A: usize, const L: usize>(p: &std::path::Path) -> Result<Box<dyn DynMarket>, String> {
    Market::<A, L>::load_json(p).map(|m| Box::new(m) as Box<dyn DynMarket>).map_err(|e| e.to_string())
}

pub fn new_market(assets: usize, levels: usize, t: u64, ticks: &[u32], trading: bool) -> Box<dyn DynMarket> {
    by_al!(assets, levels, mk, t, ticks, trading)
}
pub fn market_from_str(assets: usize, levels: usize, s: &str) -> Result<Box<dyn DynMarket>, String> {
    by_al!(assets, levels, from_str, s)
}
pub fn market_from_file(assets: usize, levels: usize, p: &std::path::Path) -> Result<Box<dyn DynMarket>, String> {
    by_al!(assets, levels, from_file, p)
}

pub fn reload_market(m: &dyn DynMarket, how: u8) -> Result<Box<dyn DynMarket>, String> {
    match how % 4 {
        0 => market_from_str(m.assets(), m.levels(), &m.to_json(false)),
        1 => market_from_str(m.assets(), m.levels(), &m.to_json(true)),
        h => {
            // one path per thread, not removed between uses (saving over an existing, often longer file must replace it)
            let p = crate::engine::scratch_dir().join(format!("msnap-{}-{:?}.json", std::process::id(), std::thread::current().id()));
            if !p.exists() {
                let _ = std::fs::write(&p, format!("{{{}}}", " ".repeat(60_000)));
            }
            m.save_json(&p, h == 3)?;
            market_from_file(m.assets(), m.levels(), &p)
        }
    }
}

#[derive(Clone, Debug, PartialEq, Eq, Hash, Serialize, Deserialize)]
pub struct MarketCase {
    pub ticks: Vec<u32>,
    pub levels: usize,
    pub trading: bool,
    pub t0: u64,
    /// (asset, op); Advance / Trading / ResetTradeVol / Reload act on the whole market
    pub ops: Vec<(u8, Op)>,
    /// volume 0 is passed through unclamped (C14: differential between real objects, no volume clause)
    #[serde(default)]
    pub zero_vols: bool,
    /// an asset byte with the high bit set addresses the asset's own book through
    /// `Market::get_order_book_mut` (order operations, trading toggle and counter reset of that asset only)
    #[serde(default)]
    pub direct_ops: bool,
    /// bit (k mod 64) set: after operation k no market-data getter of the market or of its books is called
    /// (order / trade lists and clocks only; views taken as recomputed from the order lists)
    #[serde(default)]
    pub quiet: u64,
}

#[derive(Clone, Copy, Debug, Default)]
pub struct MarketOracles {
    /// lock-step against stand-alone books (C14)
    pub standalone: bool,
    /// lock-step original vs reloaded market (C07)
    pub lockstep: bool,
    /// grid / creation iff-rule / no trace (C12)
    pub grid: bool,
    /// trading flag invariants (C13)
    pub trading: bool,
}

#[derive(Clone, Debug, Default)]
pub struct MarketFeatures {
    pub quiet_ops: u64,
    pub direct_ops: u64,
    pub direct_clock_moves: u64,
    pub ops_executed: u64,
    pub ops_skipped: u64,
    pub trades: u64,
    pub assets_with_orders: usize,
    pub assets_with_trades: usize,
    pub equal_local_ids_differ: bool,
    pub reloads: u64,
    pub reload_with_deep_queue: bool,
    pub traded_after_reload: bool,
    pub offgrid_create: u64,
    pub offgrid_nonempty: bool,
    pub crossed_while_off: bool,
    pub traded_after_reenable: bool,
    pub toggles: u64,
}

fn resolve(orders: &[OrderRec], r: Ref) -> Option<usize> {
    if orders.is_empty() {
        return None;
    }
    if r.pref >= 100 {
        let id = (r.pref - 100) as usize + r.ix as usize;
        return if id < orders.len() { Some(id) } else { None };
    }
    let want = match r.pref {
        1 => Some(St::New),
        2 => Some(St::Active),
        3 => Some(St::Filled),
        4 => Some(St::Cancelled),
        5 => Some(St::Rejected),
        _ => None,
    };
    if let Some(w) = want {
        let pool: Vec<usize> = orders.iter().filter(|o| o.status == w).map(|o| o.id).collect();
        if !pool.is_empty() {
            return Some(pool[(r.ix as usize * pool.len()) >> 16]);
        }
    }
    Some((r.ix as usize * orders.len()) >> 16)
}

fn market_obs(m: &dyn DynMarket) -> Vec<Obs> {
    (0..m.assets()).map(|a| capture(m.book(a))).collect()
}

fn market_obs_quiet(m: &dyn DynMarket, ticks: &[u32], levels: usize) -> Vec<Obs> {
    (0..m.assets())
        .map(|a| {
            let b = m.book(a);
            let orders = b.orders();
            let views = crate::obs::recompute_views(&orders, ticks[a], levels);
            Obs { time: b.get_time(), trade_vol: b.get_trade_vol(), orders, trades: b.trades(), views }
        })
        .collect()
}

/// all-asset queries vs per-book values in asset order
fn check_all_asset_queries(m: &dyn DynMarket, per: &[Obs]) -> Option<String> {
    macro_rules! q {
        ($name:ident, $f:expr) => {
            let got = m.$name();
            let want: Vec<_> = per.iter().map($f).collect();
            if got != want {
                return Some(format!("{}(): got {:?}, per-asset values {:?}", stringify!($name), got, want));
            }
        };
    }
    q!(bid_asks, |o| o.views.bid_ask);
    q!(bid_vols, |o| o.views.bid_vol);
    q!(ask_vols, |o| o.views.ask_vol);
    q!(bid_best_vols, |o| o.views.bid_best_vol);
    q!(ask_best_vols, |o| o.views.ask_best_vol);
    q!(bid_best_vol_and_orders, |o| o.views.bid_best_vo);
    q!(ask_best_vol_and_orders, |o| o.views.ask_best_vo);
    q!(bid_levels, |o| o.views.bid_levels.clone());
    q!(ask_levels, |o| o.views.ask_levels.clone());
    q!(level_2_data, |o| o.views.l2.clone());
    q!(get_trade_vols, |o| o.trade_vol);
    for (a, o) in per.iter().enumerate() {
        let got = m.get_orders(a);
        if got != o.orders {
            return Some(format!("get_orders({}) differs from get_order_book({}).get_orders()", a, a));
        }
        for r in o.orders.iter() {
            if m.order((a, r.id)) != *r {
                return Some(format!("order(({}, {})) = {:?}, expected {:?}", a, r.id, m.order((a, r.id)), r));
            }
        }
        if o.time != m.get_time() {
            return Some(format!("asset {} clock {} differs from market clock {}", a, o.time, m.get_time()));
        }
    }
    None
}

pub fn run_market_case(case: &MarketCase, orc: MarketOracles, prop: &str) -> (MarketFeatures, Result<(), Failure>) {
    let mut feat = MarketFeatures::default();
    let r = run_inner(case, orc, prop, &mut feat);
    (feat, r)
}

fn run_inner(case: &MarketCase, orc: MarketOracles, prop: &str, feat: &mut MarketFeatures) -> Result<(), Failure> {
    let n = case.ticks.len();
    let mut market = new_market(n, case.levels, case.t0, &case.ticks, case.trading);
    let mut twin: Option<Box<dyn DynMarket>> = None;
    let mut alone: Vec<Box<dyn DynBook>> = if orc.standalone { (0..n).map(|a| new_book(case.levels, case.t0, case.ticks[a], case.trading)).collect() } else { vec![] };
    let mut now = case.t0;
    // per-asset flags (they differ only after a toggle applied to one asset's own book)
    let mut flags: Vec<bool> = vec![case.trading; n];
    let mut crossed_off = false;
    let mut reenabled_after_cross = false;
    let total = case.ops.len();
    let fail = |sig: &str, step: usize, op: &(u8, Op), msg: String| Failure::new(prop, sig, format!("step {} asset {} op {:?}: {}", step, op.0, op.1, msg));

    let mut pre = market_obs(market.as_ref());
    let n_ops = case.ops.len();
    for (step, aop) in case.ops.iter().enumerate() {
        let direct = case.direct_ops && aop.0 & 0x80 != 0;
        let a = ((if case.direct_ops { aop.0 & 0x7f } else { aop.0 }) as usize) % n;
        let op = &aop.1;
        let ops_left = total - step;
        if direct {
            feat.direct_ops += 1;
        }
        let min_vol: u64 = if case.zero_vols { 0 } else { 1 };
        // admissible volumes from the observed state of asset `a` (see ops::admissible_vol)
        let clamp = |bid: bool, vol: u32, own: u64, tradable: u64, rests: bool| -> u32 { crate::ops::admissible_vol(&pre[a].orders, pre[a].trade_vol as u64, bid, vol, own, tradable, rests, ops_left, min_vol) };
        let mut rejected_create = false;
        let mut is_toggle = false;
        // the order this operation placed or re-entered (asset `a`), if any
        let mut target: Option<usize> = None;
        // concrete ModifyRel
        let concrete;
        let op = if let Op::ModifyRel { r, price, dvol } = op {
            let cur = resolve(&pre[a].orders, *r).map(|id| pre[a].orders[id].vol).unwrap_or(1) as i64;
            concrete = Op::Modify { r: *r, price: *price, vol: Some((cur + *dvol as i64).clamp(1, u32::MAX as i64) as u32) };
            &concrete
        } else {
            op
        };
        match op {
            Op::Create { bid, vol, trader, price } | Op::CreatePlace { bid, vol, trader, price } => {
                let placing = matches!(op, Op::CreatePlace { .. });
                let price = &crate::ops::limit_price(*bid, *price, case.ticks[a]);
                let tradable = match (placing && flags[a], price) {
                    (true, Some(p)) if p % case.ticks[a] == 0 => crate::ops::tradable_now(&pre[a].orders, *bid, *p),
                    _ => 0,
                };
                let v = clamp(*bid, *vol, 0, tradable, price.is_some());
                let on_grid = price.map_or(true, |p| p % case.ticks[a] == 0);
                if !on_grid {
                    feat.offgrid_create += 1;
                    if pre[a].orders.iter().any(|o| o.status == St::Active) {
                        feat.offgrid_nonempty = true;
                    }
                }
                // documented usage: advance the clock before a placement that may tie
                if placing && on_grid && price.is_some() {
                    let p = price.unwrap();
                    if pre[a].orders.iter().any(|o| o.status == St::Active && o.bid == *bid && o.price == p) {
                        now += 1;
                        market.set_time(now);
                        if let Some(t) = twin.as_mut() {
                            t.set_time(now)
                        }
                        for b in alone.iter_mut() {
                            b.set_time(now)
                        }
                    }
                }
                let n_before = pre[a].orders.len();
                let create = |m: &mut dyn DynMarket| -> Result<(usize, usize), String> {
                    if direct {
                        let b = m.book_mut(a);
                        (if placing { b.create_and_place_order(*bid, v, *trader, *price) } else { b.create_order(*bid, v, *trader, *price) }).map(|id| (a, id))
                    } else if placing {
                        m.create_and_place_order(a, *bid, v, *trader, *price)
                    } else {
                        m.create_order(a, *bid, v, *trader, *price)
                    }
                };
                let r = create(market.as_mut());
                target = r.as_ref().ok().map(|x| x.1);
                if let Some(t) = twin.as_mut() {
                    let r2 = create(t.as_mut());
                    if r != r2 {
                        return Err(fail("C07 reloaded market diverges", step, aop, format!("creation result {:?} vs original {:?}", r, r2)));
                    }
                }
                if orc.standalone {
                    let r2 = if placing { alone[a].create_and_place_order(*bid, v, *trader, *price) } else { alone[a].create_order(*bid, v, *trader, *price) };
                    let want = r2.clone().map(|id| (a, id));
                    if r != want {
                        return Err(fail("C14 market order id is not (asset, per-asset sequence number)", step, aop, format!("market returned {:?}, stand-alone book {:?}", r, r2)));
                    }
                }
                match &r {
                    Ok(id) => {
                        if orc.grid && !on_grid {
                            return Err(fail("C12 off-grid creation accepted", step, aop, format!("{:?}", id)));
                        }
                        if orc.grid && *id != (a, n_before) {
                            return Err(fail("C12 creation id", step, aop, format!("returned {:?}, expected ({}, {})", id, a, n_before)));
                        }
                    }
                    Err(e) => {
                        if orc.grid && on_grid {
                            return Err(fail("C12 on-grid creation rejected", step, aop, e.clone()));
                        }
                        rejected_create = true;
                    }
                }
            }
            Op::Place(r) | Op::EvNew(r) | Op::Cancel(r) | Op::EvCancel(r) => {
                let Some(id) = resolve(&pre[a].orders, *r) else {
                    feat.ops_skipped += 1;
                    continue;
                };
                let o = &pre[a].orders[id];
                if matches!(op, Op::Place(_) | Op::EvNew(_)) && o.status == St::New && pre[a].orders.iter().any(|x| x.status == St::Active && x.bid == o.bid && x.price == o.price) {
                    now += 1;
                    market.set_time(now);
                    if let Some(t) = twin.as_mut() {
                        t.set_time(now)
                    }
                    for b in alone.iter_mut() {
                        b.set_time(now)
                    }
                }
                if matches!(op, Op::Place(_) | Op::EvNew(_)) {
                    target = Some(id);
                }
                let act = |m: &mut dyn DynMarket| match (op, direct) {
                    (Op::Place(_), false) => m.place_order((a, id)),
                    (Op::EvNew(_), false) => m.process_event(a, &Ev::New(id)),
                    (Op::Cancel(_), false) => m.cancel_order((a, id)),
                    (_, false) => m.process_event(a, &Ev::Cancel(id)),
                    (Op::Place(_), true) => m.book_mut(a).place_order(id),
                    (Op::EvNew(_), true) => m.book_mut(a).process_event(&Ev::New(id)),
                    (Op::Cancel(_), true) => m.book_mut(a).cancel_order(id),
                    (_, true) => m.book_mut(a).process_event(&Ev::Cancel(id)),
                };
                act(market.as_mut());
                if let Some(t) = twin.as_mut() {
                    act(t.as_mut());
                }
                if orc.standalone {
                    match op {
                        Op::Place(_) => alone[a].place_order(id),
                        Op::EvNew(_) => alone[a].process_event(&Ev::New(id)),
                        Op::Cancel(_) => alone[a].cancel_order(id),
                        _ => alone[a].process_event(&Ev::Cancel(id)),
                    }
                }
            }
            Op::Modify { r, price, vol } | Op::EvModify { r, price, vol } => {
                let Some(id) = resolve(&pre[a].orders, *r) else {
                    feat.ops_skipped += 1;
                    continue;
                };
                let o = pre[a].orders[id].clone();
                let mut vol = *vol;
                let price = &crate::ops::limit_price(o.bid, *price, case.ticks[a]);
                if o.status == St::Active {
                    if let Some(v) = vol {
                        vol = Some(if v > o.vol {
                            let np = price.unwrap_or(o.price);
                            let tradable = if flags[a] && np % case.ticks[a] == 0 { crate::ops::tradable_now(&pre[a].orders, o.bid, np) } else { 0 };
                            o.vol.saturating_add(clamp(o.bid, v - o.vol, o.vol as u64, tradable, true))
                        } else {
                            v.max(min_vol as u32)
                        });
                    }
                    let np = price.unwrap_or(o.price);
                    let requeue = price.is_some() || vol.map_or(false, |v| v >= o.vol);
                    if requeue && pre[a].orders.iter().any(|x| x.id != id && x.status == St::Active && x.bid == o.bid && x.price == np) {
                        now += 1;
                        market.set_time(now);
                        if let Some(t) = twin.as_mut() {
                            t.set_time(now)
                        }
                        for b in alone.iter_mut() {
                            b.set_time(now)
                        }
                    }
                }
                let ev = matches!(op, Op::EvModify { .. });
                if o.status == St::Active && (price.is_some() || vol.map_or(false, |v| v >= o.vol)) {
                    target = Some(id);
                }
                let act = |m: &mut dyn DynMarket| match (ev, direct) {
                    (true, false) => m.process_event(a, &Ev::Modify(id, *price, vol)),
                    (false, false) => m.modify_order((a, id), *price, vol),
                    (true, true) => m.book_mut(a).process_event(&Ev::Modify(id, *price, vol)),
                    (false, true) => m.book_mut(a).modify_order(id, *price, vol),
                };
                act(market.as_mut());
                if let Some(t) = twin.as_mut() {
                    act(t.as_mut());
                }
                if orc.standalone {
                    if ev {
                        alone[a].process_event(&Ev::Modify(id, *price, vol))
                    } else {
                        alone[a].modify_order(id, *price, vol)
                    }
                }
            }
            Op::ModifyRel { .. } => unreachable!("harness: ModifyRel made concrete above"),
            Op::Advance(dt) => {
                now = now.saturating_add(*dt).min(u64::MAX - (1 << 20));
                if direct && !orc.standalone {
                    // only this asset's own book is moved forward (through get_order_book_mut): the books of one
                    // market then show different clocks until the next broadcast, which is later than all of them.
                    // A reachable state for C07 (snapshots); not done in C14's cases, whose property is about books
                    // that share one clock (a caller who moves one book's clock alone has given that up himself)
                    feat.direct_clock_moves += 1;
                    market.book_mut(a).set_time(now);
                    if let Some(t) = twin.as_mut() {
                        t.book_mut(a).set_time(now)
                    }
                    if orc.standalone {
                        alone[a].set_time(now)
                    }
                } else {
                    market.set_time(now);
                    if let Some(t) = twin.as_mut() {
                        t.set_time(now)
                    }
                    for b in alone.iter_mut() {
                        b.set_time(now)
                    }
                }
            }
            Op::Trading(on) => {
                is_toggle = true;
                let f = |m: &mut dyn DynMarket| match (direct, *on) {
                    (false, true) => m.enable_trading(),
                    (false, false) => m.disable_trading(),
                    (true, true) => m.book_mut(a).enable_trading(),
                    (true, false) => m.book_mut(a).disable_trading(),
                };
                f(market.as_mut());
                if let Some(t) = twin.as_mut() {
                    f(t.as_mut());
                }
                for (k, b) in alone.iter_mut().enumerate() {
                    if direct && k != a {
                        continue;
                    }
                    if *on {
                        b.enable_trading()
                    } else {
                        b.disable_trading()
                    }
                }
                for k in 0..n {
                    if direct && k != a {
                        continue;
                    }
                    if flags[k] != *on {
                        feat.toggles += 1;
                        if *on && crossed_off {
                            reenabled_after_cross = true;
                        }
                    }
                    flags[k] = *on;
                }
            }
            Op::ResetTradeVol => {
                if direct {
                    market.book_mut(a).reset_trade_vol();
                    if let Some(t) = twin.as_mut() {
                        t.book_mut(a).reset_trade_vol()
                    }
                    if orc.standalone {
                        alone[a].reset_trade_vol()
                    }
                } else {
                    market.reset_trade_vols();
                    if let Some(t) = twin.as_mut() {
                        t.reset_trade_vols()
                    }
                    for b in alone.iter_mut() {
                        b.reset_trade_vol()
                    }
                }
            }
            Op::Reload(how) => {
                let res = std::panic::catch_unwind(std::panic::AssertUnwindSafe(|| reload_market(market.as_ref(), *how)));
                let loaded = match res {
                    Ok(Ok(m)) => m,
                    Ok(Err(e)) => return Err(fail("C07 market snapshot fails to load", step, aop, e)),
                    Err(_) => return Err(fail("C07 market snapshot load panics", step, aop, crate::engine::last_panic())),
                };
                feat.reloads += 1;
                for o in pre.iter() {
                    let mut lv = std::collections::BTreeMap::new();
                    for x in o.orders.iter().filter(|x| x.status == St::Active) {
                        *lv.entry((x.bid, x.price)).or_insert(0u32) += 1;
                    }
                    if lv.values().any(|&c| c >= 2) {
                        feat.reload_with_deep_queue = true;
                    }
                }
                let old = std::mem::replace(&mut market, loaded);
                if orc.lockstep && twin.is_none() {
                    twin = Some(old);
                }
            }
        }
        feat.ops_executed += 1;
        let quiet = step + 1 < n_ops && (case.quiet >> (step % 64)) & 1 == 1;
        let obs = |m: &dyn DynMarket| if quiet { market_obs_quiet(m, &case.ticks, case.levels) } else { market_obs(m) };
        let post = obs(market.as_ref());

        // --- oracles
        if let Some(t) = twin.as_ref() {
            let o = obs(t.as_ref());
            for a2 in 0..n {
                if let Some(d) = diff_obs(&post[a2], &o[a2]) {
                    return Err(fail("C07 reloaded market diverges", step, aop, format!("asset {}: reloaded vs original: {}", a2, d)));
                }
            }
        }
        if orc.standalone {
            for a2 in 0..n {
                let o = capture(alone[a2].as_ref());
                if let Some(d) = diff_obs(&post[a2], &o) {
                    let sig = if a2 == a { "C14 asset differs from a stand-alone book fed the same operations" } else { "C14 operation on one asset changed another asset" };
                    return Err(fail(sig, step, aop, format!("asset {}: market vs stand-alone: {}", a2, d)));
                }
            }
            if quiet {
                feat.quiet_ops += 1;
            } else if let Some(d) = check_all_asset_queries(market.as_ref(), &post) {
                return Err(fail("C14 all-asset query does not return per-asset values in asset order", step, aop, d));
            }
        }
        if orc.grid {
            if rejected_create {
                for a2 in 0..n {
                    if let Some(d) = diff_obs(&pre[a2], &post[a2]) {
                        return Err(fail("C12 rejected creation left a trace", step, aop, format!("asset {}: {}", a2, d)));
                    }
                }
            }
            for a2 in 0..n {
                for o in post[a2].orders.iter() {
                    let market_order = (o.bid && o.price == u32::MAX) || (!o.bid && o.price == 0);
                    if !market_order && o.price % case.ticks[a2] != 0 {
                        return Err(fail("C12 off-grid price in book", step, aop, format!("asset {} order {:?} tick {}", a2, o, case.ticks[a2])));
                    }
                }
            }
        }
        if orc.trading {
            if is_toggle {
                for a2 in 0..n {
                    if let Some(d) = diff_obs(&pre[a2], &post[a2]) {
                        return Err(fail("C13 trading toggle changed the book", step, aop, format!("asset {}: {}", a2, d)));
                    }
                }
            }
            for a2 in 0..n {
                if !flags[a2] {
                    if post[a2].trades.len() != pre[a2].trades.len() {
                        return Err(fail("C13 trade recorded while trading disabled", step, aop, format!("asset {}: {:?}", a2, post[a2].trades.last())));
                    }
                    for (x, y) in pre[a2].orders.iter().zip(post[a2].orders.iter()) {
                        let market_order = (y.bid && y.price == u32::MAX) || (!y.bid && y.price == 0);
                        if x.status == St::New && y.status != St::New && market_order && y.status != St::Rejected {
                            return Err(fail("C13 market order not rejected while trading disabled", step, aop, format!("asset {}: {:?}", a2, y)));
                        }
                    }
                    if post[a2].orders.len() > pre[a2].orders.len() {
                        let y = post[a2].orders.last().unwrap();
                        let market_order = (y.bid && y.price == u32::MAX) || (!y.bid && y.price == 0);
                        if market_order && y.status != St::New && y.status != St::Rejected {
                            return Err(fail("C13 market order not rejected while trading disabled", step, aop, format!("asset {}: {:?}", a2, y)));
                        }
                    }
                    let v = &post[a2].views;
                    if v.bid_vol > 0 && v.ask_vol > 0 && v.bid_ask.0 >= v.bid_ask.1 {
                        crossed_off = true;
                        feat.crossed_while_off = true;
                    }
                } else {
                    // enabled: nothing is rejected, and an order that has just arrived or been re-entered has
                    // matched as far as its limit admits - it cannot be resting across the opposite touch
                    for (x, y) in pre[a2].orders.iter().zip(post[a2].orders.iter()) {
                        if x.status != St::Rejected && y.status == St::Rejected {
                            return Err(fail("C13 order rejected while trading enabled", step, aop, format!("asset {}: {:?}", a2, y)));
                        }
                    }
                    if let Some(y) = post[a2].orders.get(pre[a2].orders.len()) {
                        if y.status == St::Rejected {
                            return Err(fail("C13 order rejected while trading enabled", step, aop, format!("asset {}: {:?}", a2, y)));
                        }
                    }
                    if a2 == a && !is_toggle {
                        if let Some(y) = target.and_then(|id| post[a].orders.get(id)) {
                            let was_active = pre[a].orders.get(y.id).map_or(false, |x| x.status == St::Active);
                            let changed = pre[a].orders.get(y.id).map_or(true, |x| x != y);
                            if y.status == St::Active && (changed || !was_active) {
                                let opp = post[a].orders.iter().filter(|o| o.status == St::Active && o.bid != y.bid && o.vol > 0).map(|o| o.price);
                                let crosses = if y.bid { opp.min().map_or(false, |p| p <= y.price) } else { opp.max().map_or(false, |p| p >= y.price) };
                                if crosses && y.vol > 0 {
                                    return Err(fail("C13 arriving order rests across the opposite touch while trading is enabled", step, aop, format!("asset {}: {:?}", a, y)));
                                }
                            }
                        }
                    }
                }
            }
        }
        // features
        let mut with_orders = 0;
        let mut with_trades = 0;
        for a2 in 0..n {
            if post[a2].orders.iter().any(|o| o.status == St::Active) {
                with_orders += 1;
            }
            if !post[a2].trades.is_empty() {
                with_trades += 1;
            }
            let nt = post[a2].trades.len() - pre[a2].trades.len().min(post[a2].trades.len());
            feat.trades += nt as u64;
            if nt > 0 && feat.reloads > 0 {
                feat.traded_after_reload = true;
            }
            if nt > 0 && reenabled_after_cross {
                feat.traded_after_reenable = true;
            }
        }
        feat.assets_with_orders = feat.assets_with_orders.max(with_orders);
        feat.assets_with_trades = feat.assets_with_trades.max(with_trades);
        if n >= 2 {
            for a1 in 0..n {
                for a2 in (a1 + 1)..n {
                    let k = post[a1].orders.len().min(post[a2].orders.len());
                    if (0..k).any(|i| post[a1].orders[i] != post[a2].orders[i]) {
                        feat.equal_local_ids_differ = true;
                    }
                }
            }
        }
        pre = post;
    }
    Ok(())
}
