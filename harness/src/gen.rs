//! Generators for single-book histories: proptest strategies (dense and wide alphabets) and the
//! bounded-exhaustive enumerators.

use crate::ops::{BookCase, Op, Ref};
use proptest::prelude::*;
use proptest::strategy::Union;

#[derive(Clone, Debug)]
pub struct GenCfg {
    pub wide: bool,
    pub tie: bool,
    pub max_len: usize,
    pub w_create_place: u32,
    pub w_create: u32,
    pub w_place: u32,
    pub w_cancel: u32,
    pub w_modify: u32,
    pub w_event: u32,
    pub w_advance: u32,
    pub w_trading: u32,
    pub w_reset: u32,
    pub w_reload: u32,
    /// arbitrary u32 prices in creations and modifications (C12)
    pub offgrid: bool,
    /// aim requests at every status pool (C04)
    pub redundant_skew: bool,
    /// probability (percent) that the book starts with trading disabled
    pub start_off_pct: u32,
    pub drain: bool,
    /// market orders as a percentage of creations
    pub market_pct: u32,
    /// deep queues: 85% of limit orders rest at one of two non-crossing prices of their own side
    /// (bids at mid-1/mid, asks at mid+1/mid+2), the rest and all market orders trade through them
    pub narrow: bool,
    /// percentage of creations / volume modifications with volume 0 (only where the oracle is a
    /// differential between two real objects and the property has no volume clause: C14)
    pub zero_vol_pct: u32,
    /// percentage of market-case operations applied to the asset's own book (`get_order_book_mut`)
    pub direct_pct: u32,
    /// percentage of market orders (narrow mode) whose volume is larger than any level the history builds
    pub sweep_pct: u32,
}

impl GenCfg {
    pub fn base(max_len: usize) -> Self {
        GenCfg {
            wide: false,
            tie: false,
            max_len,
            w_create_place: 40,
            w_create: 5,
            w_place: 8,
            w_cancel: 12,
            w_modify: 6,
            w_event: 10,
            w_advance: 10,
            w_trading: 0,
            w_reset: 1,
            w_reload: 0,
            offgrid: false,
            redundant_skew: false,
            start_off_pct: 0,
            drain: true,
            market_pct: 20,
            narrow: false,
            zero_vol_pct: 0,
            direct_pct: 0,
            sweep_pct: 0,
        }
    }
}

/// largest k with k*tick strictly below 2^32-1
pub fn kmax(tick: u32) -> u32 {
    (u32::MAX - 1) / tick
}

#[derive(Clone, Debug)]
struct Frame {
    tick: u32,
    mid: u32,
    wide: bool,
    offgrid: bool,
    narrow: bool,
}

fn price_strategy(f: &Frame) -> BoxedStrategy<u32> {
    let tick = f.tick;
    let mid = f.mid;
    let dense = if f.narrow { (0u32..4).prop_map(move |d| (mid - 1 + d) * tick).boxed() } else { (0u32..7).prop_map(move |d| (mid - 3 + d) * tick).boxed() };
    let mut v: Vec<(u32, BoxedStrategy<u32>)> = vec![(if f.wide { 50 } else { 100 }, dense)];
    if f.wide {
        let km = kmax(tick);
        v.push((8, prop_oneof![Just(tick), Just(2 * tick.min(u32::MAX / 4)), Just(km * tick), Just((km - 1) * tick)].boxed()));
        v.push((30, (1u32..=km).prop_map(move |k| k * tick).boxed()));
        v.push((12, (0u32..2000).prop_map(move |d| (mid.saturating_sub(1000).max(1) + d).min(km) * tick).boxed()));
        // complements of the dense band (2^32-1-p, snapped down to the grid): the bid side is keyed by
        // 2^32-1-price, so p and its complement are the natural pair of related magic values
        v.push((8, (0u32..7).prop_map(move |d| (((u32::MAX - (mid - 3 + d) * tick) / tick).min(km).max(1)) * tick).boxed()));
    }
    if f.offgrid {
        // arbitrary prices: half of them off the grid whenever tick > 1
        let km = kmax(tick);
        v.push((60, (0u32..7, 1u32..tick.max(2)).prop_map(move |(d, r)| ((mid - 3 + d) * tick).saturating_add(r % tick.max(1))).boxed()));
        v.push((10, prop_oneof![Just(1u32), Just(tick.saturating_add(1)), Just(tick.saturating_sub(1).max(1)), Just(u32::MAX - 1), Just(u32::MAX - 2)].boxed()));
        v.push((15, any::<u32>().prop_map(move |p| p.clamp(1, km * tick)).boxed()));
        // the two ends of the price range: a bid may rest at price 0 and an ask at 2^32-1 (the interpreters
        // turn the combinations that denote market orders - bid at 2^32-1, ask at 0 - into ordinary prices)
        v.push((6, prop_oneof![Just(0u32), Just(u32::MAX)].boxed()));
    }
    Union::new_weighted(v).boxed()
}

fn vol_strategy(wide: bool) -> BoxedStrategy<u32> {
    if wide {
        prop_oneof![5 => 1u32..=4, 3 => 1u32..=12, 2 => 1u32..=1000, 1 => 1u32..=(1 << 28), 1 => Just(1u32 << 31)].boxed()
    } else {
        prop_oneof![5 => 1u32..=4, 3 => 1u32..=12].boxed()
    }
}

fn trader_strategy(wide: bool) -> BoxedStrategy<u32> {
    if wide {
        prop_oneof![3 => 0u32..6, 1 => any::<u32>()].boxed()
    } else {
        (0u32..6).boxed()
    }
}

fn ref_strategy(skew: bool) -> BoxedStrategy<Ref> {
    let pref = if skew { prop_oneof![1 => Just(0u8), 2 => Just(1u8), 3 => Just(2u8), 2 => Just(3u8), 2 => Just(4u8), 2 => Just(5u8)].boxed() } else { prop_oneof![3 => Just(0u8), 1 => Just(1u8), 6 => Just(2u8)].boxed() };
    (pref, any::<u16>()).prop_map(|(pref, ix)| Ref { pref, ix }).boxed()
}

fn dt_strategy(wide: bool, tie: bool) -> BoxedStrategy<u64> {
    if tie {
        prop_oneof![7 => Just(0u64), 3 => Just(1u64)].boxed()
    } else if wide {
        prop_oneof![2 => Just(0u64), 4 => Just(1u64), 2 => 2u64..100, 1 => 0u64..(1 << 40)].boxed()
    } else {
        prop_oneof![2 => Just(0u64), 5 => Just(1u64), 2 => 2u64..20].boxed()
    }
}

fn op_strategy(cfg: &GenCfg, f: &Frame) -> BoxedStrategy<Op> {
    let price = price_strategy(f);
    let opt_price = {
        let p = price.clone();
        let m = cfg.market_pct;
        (0u32..100, p).prop_map(move |(r, p)| if r < m { None } else { Some(p) }).boxed()
    };
    let zp = cfg.zero_vol_pct;
    let vol = if zp > 0 { (0u32..100, vol_strategy(cfg.wide)).prop_map(move |(r, v)| if r < zp { 0 } else { v }).boxed() } else { vol_strategy(cfg.wide) };
    let trader = trader_strategy(cfg.wide);
    let rf = ref_strategy(cfg.redundant_skew);
    let new_order = if cfg.narrow {
        let (tick, mid, m, sweep) = (f.tick, f.mid, cfg.market_pct, cfg.sweep_pct);
        (any::<bool>(), vol.clone(), trader, 0u32..100, 0u32..2, 0u32..4, 0u32..100, 150u32..2_000)
            .prop_map(move |(bid, vol, trader, r, k, anyk, rs, big)| {
                let vol = if r < m && rs < sweep { big } else { vol };
                let price = if r < m {
                    None
                } else if r < m + 12 {
                    Some((mid - 1 + anyk) * tick)
                } else if bid {
                    Some((mid - 1 + k) * tick)
                } else {
                    Some((mid + 1 + k) * tick)
                };
                (bid, vol, trader, price)
            })
            .boxed()
    } else {
        (any::<bool>(), vol.clone(), trader, opt_price).boxed()
    };
    let mod_price = (0u32..100, price.clone()).prop_map(|(r, p)| if r < 45 { None } else { Some(p) }).boxed();
    let mod_vol = (0u32..100, vol.clone()).prop_map(|(r, v)| if r < 30 { None } else { Some(v) }).boxed();
    let mut v: Vec<(u32, BoxedStrategy<Op>)> = vec![];
    let mut add = |w: u32, s: BoxedStrategy<Op>| {
        if w > 0 {
            v.push((w, s))
        }
    };
    add(cfg.w_create_place, new_order.clone().prop_map(|(bid, vol, trader, price)| Op::CreatePlace { bid, vol, trader, price }).boxed());
    add(cfg.w_create, new_order.clone().prop_map(|(bid, vol, trader, price)| Op::Create { bid, vol, trader, price }).boxed());
    add(cfg.w_place, rf.clone().prop_map(|r| Op::Place(Ref { pref: if r.pref == 2 { 1 } else { r.pref }, ix: r.ix })).boxed());
    add(cfg.w_cancel, rf.clone().prop_map(Op::Cancel).boxed());
    add(cfg.w_modify, (rf.clone(), mod_price.clone(), mod_vol.clone()).prop_map(|(r, price, vol)| Op::Modify { r, price, vol }).boxed());
    if cfg.w_event > 0 {
        let wm = if cfg.w_modify > 0 { 3 } else { 0 };
        let mut e: Vec<(u32, BoxedStrategy<Op>)> = vec![
            (4, rf.clone().prop_map(|r| Op::EvNew(Ref { pref: if r.pref == 2 { 1 } else { r.pref }, ix: r.ix })).boxed()),
            (3, rf.clone().prop_map(Op::EvCancel).boxed()),
        ];
        if wm > 0 {
            e.push((wm, (rf.clone(), mod_price, mod_vol).prop_map(|(r, price, vol)| Op::EvModify { r, price, vol }).boxed()));
        }
        add(cfg.w_event, Union::new_weighted(e).boxed());
    }
    add(cfg.w_advance, dt_strategy(cfg.wide, cfg.tie).prop_map(Op::Advance).boxed());
    add(cfg.w_trading, any::<bool>().prop_map(Op::Trading).boxed());
    add(cfg.w_reset, Just(Op::ResetTradeVol).boxed());
    add(cfg.w_reload, (0u8..4).prop_map(Op::Reload).boxed());
    Union::new_weighted(v).boxed()
}

fn tick_strategy(wide: bool) -> BoxedStrategy<u32> {
    if wide {
        prop_oneof![6 => 1u32..=10, 1 => Just(16u32), 1 => Just(64u32), 1 => Just(1000u32), 1 => Just(65_536u32), 1 => Just(1_000_000u32), 1 => Just(1u32 << 27), 1 => prop_oneof![Just(1u32 << 28), Just(1u32 << 29), Just(500_000_000u32)]].boxed()
    } else {
        (1u32..=10).boxed()
    }
}

/// Random single-book histories.
pub fn book_case_strategy(cfg: GenCfg) -> BoxedStrategy<BookCase> {
    let wide = cfg.wide;
    let head = (
        tick_strategy(wide),
        1usize..=crate::dynbook::MAX_LEVELS,
        4u32..1000,
        if wide {
            // also clocks that start just below a power-of-two boundary, so that the history crosses it
            prop_oneof![3 => 0u64..1000, 1 => any::<u64>().prop_map(|t| t >> 2), 2 => (proptest::sample::select(vec![8u32, 16, 24, 31, 32, 40, 48, 56, 62]), 1u64..4, 0u64..40).prop_map(|(p, m, d)| ((1u64 << p).saturating_mul(m).min(1 << 62)).saturating_sub(d)),
                // the very end of the clock's range: u64::MAX is also the value order records carry for "no end time yet"
                1 => (0u64..6).prop_map(|d| u64::MAX - d)].boxed()
        } else {
            prop_oneof![24 => 0u64..1000, 1 => (0u64..6).prop_map(|d| u64::MAX - d)].boxed()
        },
        0u32..100,
    );
    (head, 0u32..100).prop_flat_map(move |((tick, levels, mid, t0, off), cb)| {
        // one case in twenty: the band of prices straddles the middle of the price range with a tick that divides
        // 2^32-1, so that the band contains pairs of grid prices p and 2^32-1-p (the bid side is keyed by 2^32-1-price:
        // a lookup that mixes up price and key then lands on a level that exists)
        let (tick, mid) = if cb < 5 {
            let t = [1u32, 3, 5][(cb % 3) as usize];
            (t, (u32::MAX / t) / 2 + 1)
        } else {
            (tick, mid)
        };
        let mid = mid.min(kmax(tick).saturating_sub(4)).max(4);
        let f = Frame { tick, mid, wide: cfg.wide, offgrid: cfg.offgrid, narrow: cfg.narrow };
        let trading = off >= cfg.start_off_pct;
        let (tie, drain) = (cfg.tie, cfg.drain);
        (proptest::collection::vec(op_strategy(&cfg, &f), 0..=cfg.max_len), prop_oneof![5 => Just(0u64), 2 => any::<u64>(), 1 => Just(u64::MAX)]).prop_map(move |(ops, quiet)| BookCase { tick, levels, trading, t0, tie, ops, drain, quiet, bulk: vec![] })
    })
    .boxed()
}

// ------------------------------------------------------------------------------------------
// bounded-exhaustive enumeration over the small alphabet of C01

/// The 16 create-and-place operations: 3 prices x 2 volumes x 2 sides (limit) + 2 volumes x 2 sides
/// (market).
pub fn core_op(k: usize, tick: u32, mid: u32) -> Op {
    let vols = [1u32, 2u32];
    if k < 12 {
        let price = (mid - 1 + (k % 3) as u32) * tick;
        let vol = vols[(k / 3) % 2];
        let bid = k / 6 == 0;
        Op::CreatePlace { bid, vol, trader: (k % 4) as u32, price: Some(price) }
    } else {
        let j = k - 12;
        Op::CreatePlace { bid: j / 2 == 0, vol: vols[j % 2] + 1, trader: 7, price: None }
    }
}

/// Number of sequences of exactly `depth` steps where step k chooses (advance in `advs`) x
/// (16 core ops + cancel of id 0..k).
pub fn core_space(depth: usize, n_adv: u64) -> u64 {
    (0..depth as u64).map(|k| n_adv * (16 + k)).product()
}

/// Decode index -> sequence (mixed radix, most significant digit first so that index order is
/// lexicographic).
pub fn core_sequence(mut idx: u64, depth: usize, advs: &[u64], tick: u32, mid: u32) -> Vec<Op> {
    let n_adv = advs.len() as u64;
    let radices: Vec<u64> = (0..depth as u64).map(|k| n_adv * (16 + k)).collect();
    let mut digits = vec![0u64; depth];
    for k in (0..depth).rev() {
        digits[k] = idx % radices[k];
        idx /= radices[k];
    }
    let mut ops = vec![];
    for (k, d) in digits.iter().enumerate() {
        let adv = advs[(d % n_adv) as usize];
        let c = (d / n_adv) as usize;
        if k > 0 || adv > 0 {
            if adv > 0 {
                ops.push(Op::Advance(adv));
            }
        }
        if c < 16 {
            ops.push(core_op(c, tick, mid));
        } else {
            // cancel of the (c-16)-th created id, addressed exactly
            ops.push(Op::Cancel(exact_ref(c - 16)));
        }
    }
    ops
}

/// The larger alphabet: 36 create-and-place operations = 5 prices (mid-2 .. mid+2) x 3 volumes (1, 2, 5) x 2 sides
/// (limit) + 3 volumes (2, 3, 7) x 2 sides (market): sweeps over several levels with gaps, partial fills
/// with remainders of different sizes.
pub const CORE2_OPS: u64 = 36;
pub fn core_op2(k: usize, tick: u32, mid: u32) -> Op {
    if k < 30 {
        let price = (mid - 2 + (k % 5) as u32) * tick;
        let vol = [1u32, 2, 5][(k / 5) % 3];
        let bid = k / 15 == 0;
        Op::CreatePlace { bid, vol, trader: (k % 4) as u32, price: Some(price) }
    } else {
        let j = k - 30;
        Op::CreatePlace { bid: j / 3 == 0, vol: [2u32, 3, 7][j % 3], trader: 7, price: None }
    }
}

pub fn core_space2(depth: usize, n_adv: u64) -> u64 {
    (0..depth as u64).map(|k| n_adv * (CORE2_OPS + k)).product()
}

pub fn core_sequence2(mut idx: u64, depth: usize, advs: &[u64], tick: u32, mid: u32) -> Vec<Op> {
    let n_adv = advs.len() as u64;
    let radices: Vec<u64> = (0..depth as u64).map(|k| n_adv * (CORE2_OPS + k)).collect();
    let mut digits = vec![0u64; depth];
    for k in (0..depth).rev() {
        digits[k] = idx % radices[k];
        idx /= radices[k];
    }
    let mut ops = vec![];
    for d in digits.iter() {
        let adv = advs[(d % n_adv) as usize];
        let c = (d / n_adv) as usize;
        if adv > 0 {
            ops.push(Op::Advance(adv));
        }
        if c < CORE2_OPS as usize {
            ops.push(core_op2(c, tick, mid));
        } else {
            ops.push(Op::Cancel(exact_ref(c - CORE2_OPS as usize)));
        }
    }
    ops
}

/// A `Ref` that resolves to exactly id `i` as long as fewer than 4096 orders exist... encoded by
/// pref = 100 + i (ids < 150) and handled by `resolve_exact`.
pub fn exact_ref(i: usize) -> Ref {
    if i < 100 {
        Ref { pref: 100 + i as u8, ix: 0 }
    } else {
        // ids beyond the small enumerations: pref 200 + (id >> 16), ix = low 16 bits
        assert!(i >> 16 < 50, "harness: exact_ref id out of range");
        Ref { pref: 200 + (i >> 16) as u8, ix: (i & 0xffff) as u16 }
    }
}

// ------------------------------------------------------------------------------------------
// multi-asset histories

use crate::market::{MarketCase, MARKET_LEVELS};

pub fn market_case_strategy(cfg: GenCfg, max_assets: usize) -> BoxedStrategy<MarketCase> {
    let wide = cfg.wide;
    // max_assets > 4: 15 % of the cases use a market with many assets (8, 11, 12 or 16; level counts 3 / 10)
    let n_assets: BoxedStrategy<usize> = if max_assets > 4 {
        prop_oneof![17 => 1usize..=4, 3 => proptest::sample::select(crate::market::MANY_ASSETS.to_vec())].boxed()
    } else {
        (1usize..=max_assets).boxed()
    };
    let head = (
        n_assets.prop_flat_map(move |n| proptest::collection::vec((tick_strategy(wide), 4u32..1000), n)),
        proptest::sample::select(MARKET_LEVELS.to_vec()),
        0u64..1000,
        0u32..100,
    );
    head.prop_flat_map(move |(tm, levels, t0, off)| {
        let n = tm.len();
        let levels = if n > 4 { if levels % 2 == 0 { 10 } else { 3 } } else { levels };
        let ticks: Vec<u32> = tm.iter().map(|x| x.0).collect();
        let trading = off >= cfg.start_off_pct;
        let per_asset: Vec<(u32, BoxedStrategy<(u8, Op)>)> = tm
            .iter()
            .enumerate()
            .map(|(a, (tick, mid))| {
                let mid = (*mid).min(kmax(*tick).saturating_sub(4)).max(4);
                let f = Frame { tick: *tick, mid, wide: cfg.wide, offgrid: cfg.offgrid, narrow: cfg.narrow };
                let dp = cfg.direct_pct;
                (1u32, (op_strategy(&cfg, &f), 0u32..100).prop_map(move |(op, r)| (a as u8 | if r < dp { 0x80 } else { 0 }, op)).boxed())
            })
            .collect();
        let _ = n;
        (proptest::collection::vec(Union::new_weighted(per_asset), 0..=cfg.max_len), prop_oneof![5 => Just(0u64), 2 => any::<u64>(), 1 => Just(u64::MAX)]).prop_map(move |(ops, quiet)| MarketCase { ticks: ticks.clone(), levels, trading, t0, ops, zero_vols: cfg.zero_vol_pct > 0, direct_ops: cfg.direct_pct > 0, quiet })
    })
    .boxed()
}

// ------------------------------------------------------------------------------------------
// step-environment histories

use crate::envcase::{EnvCase, Instr, StepSpec};

#[derive(Clone, Debug)]
pub struct EnvGenCfg {
    pub max_steps: usize,
    pub max_batch: usize,
    /// more instructions than time units per step (C05b)
    pub overfull: bool,
    pub offgrid: bool,
    pub toggle_pct: u32,
    pub start_off_pct: u32,
    /// 0 = only Env, 1 = only MarketEnv, 2 = both
    pub kinds: u8,
    pub large_batch_pct: u32,
    pub w_new: u32,
    pub w_cancel: u32,
    pub w_modify: u32,
    pub market_pct: u32,
    pub drain: bool,
    /// large volumes (up to 2^31) with exact accounting, one volume-adding instruction per step
    pub big_vols: bool,
}

impl EnvGenCfg {
    pub fn base() -> Self {
        EnvGenCfg { max_steps: 8, max_batch: 12, overfull: false, offgrid: false, toggle_pct: 0, start_off_pct: 0, kinds: 2, large_batch_pct: 3, w_new: 60, w_cancel: 18, w_modify: 22, market_pct: 15, drain: true, big_vols: false }
    }
}

fn instr_strategy(cfg: &EnvGenCfg, frames: &[Frame]) -> BoxedStrategy<Instr> {
    let n = frames.len();
    let per: Vec<(u32, BoxedStrategy<Instr>)> = frames
        .iter()
        .enumerate()
        .map(|(a, f)| {
            let a = a as u8;
            let (tick, mid) = (f.tick, f.mid);
            // bids mostly at or below the mid, asks at or above: resting depth on both sides with regular crossings
            let bid_price = (0u32..6).prop_map(move |d| (mid - 3 + d.min(4)) * tick);
            let ask_price = (0u32..6).prop_map(move |d| (mid - 1 + d.min(4)) * tick);
            let any_price = price_strategy(f);
            let m = cfg.market_pct;
            let offgrid = f.offgrid;
            // market orders: half of them larger than any side the generator builds (volumes <= 12 per
            // order), so that sweeps of a whole side with a discarded remainder are a regular class
            let vol_s = if cfg.big_vols {
                (vol_strategy(true), vol_strategy(true)).prop_map(|(v, m)| (v, m)).boxed()
            } else {
                (vol_strategy(f.wide), 0u32..100, 200u32..5000).prop_map(|(v, r, big)| (v, if r < 50 { big } else { v })).boxed()
            };
            let new = (any::<bool>(), vol_s, 0u32..6, 0u32..100, bid_price, ask_price, any_price.clone()).prop_map(move |(bid, (vol, mvol), trader, r, bp, ap, anyp)| {
                let vol = if r < m { mvol } else { vol };
                let price = if r < m {
                    None
                } else if offgrid && r % 2 == 0 {
                    Some(anyp)
                } else {
                    Some(if bid { bp } else { ap })
                };
                Instr::New { asset: a, bid, vol, trader, price }
            });
            let rf = prop_oneof![5 => (Just(2u8), any::<u16>()), 3 => (Just(1u8), any::<u16>()), 1 => (Just(0u8), any::<u16>())].prop_map(|(pref, ix)| Ref { pref, ix });
            let cancel = rf.clone().prop_map(move |r| Instr::Cancel { asset: a, r });
            let mp = (0u32..100, any_price).prop_map(|(r, p)| if r < 40 { None } else { Some(p) });
            let mv = (0u32..100, vol_strategy(false)).prop_map(|(r, v)| if r < 35 { None } else { Some(v) });
            let modify_cur = (rf.clone(), any::<bool>(), prop_oneof![2 => Just(None), 3 => Just(Some(0i8)), 2 => Just(Some(-1i8)), 2 => Just(Some(1i8)), 1 => (-4i8..=4).prop_map(Some)]).prop_map(move |(r, restate_price, dvol)| Instr::ModifyCur { asset: a, r, restate_price, dvol });
            let modify = (rf, mp, mv).prop_map(move |(r, price, vol)| Instr::Modify { asset: a, r, price, vol });
            let mut v: Vec<(u32, BoxedStrategy<Instr>)> = vec![(cfg.w_new.max(1), new.boxed())];
            if cfg.w_cancel > 0 {
                v.push((cfg.w_cancel, cancel.boxed()));
            }
            if cfg.w_modify > 0 {
                v.push((cfg.w_modify, modify.boxed()));
                // restating an order's current price / volume (a re-queue in place) is a class of its own
                v.push(((cfg.w_modify / 3).max(1), modify_cur.boxed()));
            }
            (1u32, Union::new_weighted(v).boxed())
        })
        .collect();
    let _ = n;
    Union::new_weighted(per).boxed()
}

pub fn env_case_strategy(cfg: EnvGenCfg) -> BoxedStrategy<EnvCase> {
    let kind = match cfg.kinds {
        0 => Just(0u8).boxed(),
        1 => prop_oneof![12 => 1u8..=4, 1 => proptest::sample::select(vec![8u8, 11, 12, 16])].boxed(),
        _ => prop_oneof![8 => Just(0u8), 4 => Just(1u8), 8 => Just(2u8), 4 => Just(3u8), 4 => Just(4u8), 1 => proptest::sample::select(vec![8u8, 11, 12, 16])].boxed(),
    };
    let head = (kind, proptest::collection::vec((1u32..=10, 6u32..1000), 16), 1usize..=crate::dynbook::MAX_LEVELS, proptest::sample::select(MARKET_LEVELS.to_vec()), prop_oneof![12 => 0u64..100_000, 1 => (32u32..=61, 0u64..1000).prop_map(|(e, d)| (1u64 << e) - 500 + d)], any::<u64>(), 0u32..100, (0u32..100, 0u32..100));
    head.prop_flat_map(move |(kind_assets, tm, l_env, l_mkt, t0, seed, off, (large, ext))| {
        let n = (kind_assets as usize).max(1);
        let levels = if kind_assets == 0 { l_env } else if kind_assets > 4 { if l_mkt % 2 == 0 { 10 } else { 3 } } else { l_mkt };
        let ticks: Vec<u32> = tm.iter().take(n).map(|x| x.0).collect();
        // the band of prices of an asset: usually a few to a thousand ticks above zero; in one asset out of eight at the
        // very top of the price range (highest ask a few ticks below 2^32-1) or at its very bottom (lowest bid on the
        // first ticks), so that published levels reach beyond the range
        let place = |tick: u32, mid: u32| -> u32 {
            match (mid / 7) % 16 {
                0 => kmax(tick) - 4 - mid % 24,
                1 => 4 + mid % 20,
                _ => mid,
            }
        };
        let frames: Vec<Frame> = tm.iter().take(n).map(|(tick, mid)| Frame { tick: *tick, mid: place(*tick, *mid), wide: false, offgrid: cfg.offgrid, narrow: false }).collect();
        let trading = off >= cfg.start_off_pct;
        let is_large = !cfg.overfull && large < cfg.large_batch_pct;
        let is_large_overfull = cfg.overfull && large < cfg.large_batch_pct;
        let (step_size_s, batch_range): (BoxedStrategy<u64>, std::ops::RangeInclusive<usize>) = if is_large_overfull {
            // overfull AND large: 33..64 instructions in a step of 8..16 time units
            ((8u64..=16).boxed(), 33..=64)
        } else if cfg.overfull {
            ((1u64..=4).boxed(), 0..=16)
        } else if is_large {
            (prop_oneof![Just(64u64), Just(100u64), Just(256u64)].boxed(), 30..=60)
        } else {
            // small step sizes as well: batches are cut to the step size below, so that batches of EXACTLY
            // step-size instructions (the largest the property allows) are a regular class
            (prop_oneof![4 => Just(16u64), 2 => Just(17u64), 4 => Just(100u64), 4 => Just(1000u64), 2 => Just(1_000_000u64), 8 => 1u64..=12, 1 => prop_oneof![Just(u32::MAX as u64), Just(1u64 << 32), Just((1u64 << 32) + 1), Just(1u64 << 48)]].boxed(), 0..=cfg.max_batch)
        };
        let mut icfg = cfg.clone();
        if is_large || is_large_overfull {
            icfg.w_new = 200;
        }
        let instr = instr_strategy(&icfg, &frames);
        let tp = cfg.toggle_pct;
        let step = (0u32..100, any::<bool>(), proptest::collection::vec(instr, batch_range)).prop_map(move |(r, on, instrs)| StepSpec { toggle: if r < tp { Some(on) } else { None }, instrs });
        let (overfull, drain) = (cfg.overfull, cfg.drain);
        let exact_vols = cfg.big_vols;
        // arbitrary-price cases: in 14 % of them one side sits at the very end of the price range (every limit
        // bid at price 0, or every limit ask at the last grid price <= 2^32-1), so the touch itself is at the
        // value that doubles as the empty-side sentinel
        let extreme: u8 = if cfg.offgrid && ext < 14 { 1 + (ext % 2) as u8 } else { 0 };
        let ticks_x = ticks.clone();
        (step_size_s, proptest::collection::vec(step, 1..=cfg.max_steps), prop_oneof![5 => Just(0u64), 2 => any::<u64>(), 1 => Just(u64::MAX)]).prop_map(move |(step_size, mut steps, quiet_steps)| {
            if extreme > 0 {
                for s in steps.iter_mut() {
                    for ins in s.instrs.iter_mut() {
                        if let Instr::New { asset, bid, price: Some(p), .. } = ins {
                            let tk = ticks_x[*asset as usize % ticks_x.len()];
                            if extreme == 1 && *bid {
                                *p = 0;
                            } else if extreme == 2 && !*bid {
                                *p = (u32::MAX / tk) * tk;
                            }
                        }
                    }
                }
            }
            if overfull {
                // batches of step_size+1 .. 4*step_size instructions
                for s in steps.iter_mut() {
                    let cap = (4 * step_size as usize).max(2);
                    s.instrs.truncate(cap);
                }
            } else {
                for s in steps.iter_mut() {
                    s.instrs.truncate(step_size.min(1 << 20) as usize);
                }
            }
            EnvCase { kind_assets, levels, ticks: ticks.clone(), t0, step_size, trading, seed, steps, drain, exact_vols, quiet_steps }
        })
    })
    .boxed()
}
