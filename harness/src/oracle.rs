//! `verif oracle-server`: a long-lived child process speaking JSON lines that drives bourse_book /
//! bourse_de directly (not through PyO3). The Python checks execute every call on the compiled
//! extension module and send the same call here, then compare return values and snapshots.

use bourse_book::types::{Order, Side, Trade};
use bourse_book::OrderBook;
use bourse_de::Env;
use rand::SeedableRng;
use rand_xoshiro::Xoroshiro128StarStar;
use serde_json::{json, Value};
use std::io::{BufRead, Write};

fn status_name(o: &Order) -> &'static str {
    use bourse_book::types::Status::*;
    match o.status {
        New => "New",
        Active => "Active",
        Filled => "Filled",
        Cancelled => "Cancelled",
        Rejected => "Rejected",
        #[allow(unreachable_patterns)]
        _ => "Other",
    }
}

fn order_json(o: &Order) -> Value {
    json!({"bid": matches!(o.side, Side::Bid), "status": status_name(o), "arr_time": o.arr_time, "end_time": o.end_time, "vol": o.vol, "start_vol": o.start_vol, "price": o.price, "trader_id": o.trader_id, "order_id": o.order_id})
}

fn trade_json(t: &Trade) -> Value {
    json!({"t": t.t, "bid": matches!(t.side, Side::Bid), "price": t.price, "vol": t.vol, "active": t.active_order_id, "passive": t.passive_order_id})
}

fn side(b: bool) -> Side {
    if b {
        Side::Bid
    } else {
        Side::Ask
    }
}

fn book_snapshot(b: &OrderBook) -> Value {
    json!({
        "time": b.get_time(),
        "bid_ask": [b.bid_ask().0, b.bid_ask().1],
        "ask_vol": b.ask_vol(),
        "best_ask_vol": b.ask_best_vol(),
        "best_ask_vol_and_orders": [b.ask_best_vol_and_orders().0, b.ask_best_vol_and_orders().1],
        "bid_vol": b.bid_vol(),
        "best_bid_vol": b.bid_best_vol(),
        "best_bid_vol_and_orders": [b.bid_best_vol_and_orders().0, b.bid_best_vol_and_orders().1],
        "orders": b.get_orders().iter().map(|o| order_json(o)).collect::<Vec<_>>(),
        "trades": b.get_trades().iter().map(trade_json).collect::<Vec<_>>(),
    })
}

fn env_snapshot(e: &Env) -> Value {
    let l2 = e.level_2_data();
    let p = e.get_prices();
    let v = e.get_volumes();
    let tv = e.get_touch_volumes();
    let tc = e.get_touch_order_counts();
    json!({
        "time": e.get_orderbook().get_time(),
        "bid_ask": [l2.bid_price, l2.ask_price],
        "ask_vol": l2.ask_vol,
        "best_ask_vol": l2.ask_price_levels[0].0,
        "best_ask_vol_and_orders": [l2.ask_price_levels[0].0, l2.ask_price_levels[0].1],
        "bid_vol": l2.bid_vol,
        "best_bid_vol": l2.bid_price_levels[0].0,
        "best_bid_vol_and_orders": [l2.bid_price_levels[0].0, l2.bid_price_levels[0].1],
        "trade_vol": e.get_orderbook().get_trade_vol(),
        "orders": e.get_orders().iter().map(|o| order_json(o)).collect::<Vec<_>>(),
        "trades": e.get_trades().iter().map(trade_json).collect::<Vec<_>>(),
        "prices": [p.0.clone(), p.1.clone()],
        "volumes": [v.0.clone(), v.1.clone()],
        "touch_volumes": [tv.0.clone(), tv.1.clone()],
        "touch_order_counts": [tc.0.clone(), tc.1.clone()],
        "trade_volumes": e.get_trade_vols().clone(),
    })
}

pub fn server_main() -> i32 {
    let stdin = std::io::stdin();
    let stdout = std::io::stdout();
    let mut book: Option<OrderBook> = None;
    let mut env: Option<(Env, Xoroshiro128StarStar)> = None;
    for line in stdin.lock().lines() {
        let Ok(line) = line else { break };
        let Ok(req) = serde_json::from_str::<Value>(&line) else {
            let _ = writeln!(stdout.lock(), "{}", json!({"error": "bad json"}));
            continue;
        };
        let op = req["op"].as_str().unwrap_or("");
        let u64f = |k: &str| req[k].as_u64().unwrap_or(0);
        let u32f = |k: &str| req[k].as_u64().unwrap_or(0) as u32;
        let opt32 = |k: &str| req[k].as_u64().map(|x| x as u32);
        let resp: Value = match op {
            "book_new" => {
                book = Some(OrderBook::new(u64f("start"), u32f("tick"), req["trading"].as_bool().unwrap_or(true)));
                json!({"ok": true})
            }
            "book_set_time" => {
                book.as_mut().unwrap().set_time(u64f("t"));
                json!({"ok": true})
            }
            "book_enable" => {
                book.as_mut().unwrap().enable_trading();
                json!({"ok": true})
            }
            "book_disable" => {
                book.as_mut().unwrap().disable_trading();
                json!({"ok": true})
            }
            "book_place" => match book.as_mut().unwrap().create_and_place_order(side(req["bid"].as_bool().unwrap()), u32f("vol"), u32f("trader"), opt32("price")) {
                Ok(id) => json!({"ok": true, "id": id}),
                Err(e) => json!({"ok": false, "err": e.to_string()}),
            },
            "book_cancel" => {
                book.as_mut().unwrap().cancel_order(u64f("id") as usize);
                json!({"ok": true})
            }
            "book_modify" => {
                book.as_mut().unwrap().modify_order(u64f("id") as usize, opt32("price"), opt32("vol"));
                json!({"ok": true})
            }
            "book_snapshot" => book_snapshot(book.as_ref().unwrap()),
            "book_save" => match book.as_ref().unwrap().save_json(req["path"].as_str().unwrap(), req["pretty"].as_bool().unwrap_or(false)) {
                Ok(()) => json!({"ok": true}),
                Err(e) => json!({"ok": false, "err": e.to_string()}),
            },
            "book_load" => match OrderBook::load_json(req["path"].as_str().unwrap()) {
                Ok(b) => {
                    book = Some(b);
                    json!({"ok": true})
                }
                Err(e) => json!({"ok": false, "err": e.to_string()}),
            },
            "env_new" => {
                env = Some((Env::new(u64f("start"), u32f("tick"), u64f("step"), req["trading"].as_bool().unwrap_or(true)), Xoroshiro128StarStar::seed_from_u64(u64f("seed"))));
                json!({"ok": true})
            }
            "env_place" => match env.as_mut().unwrap().0.place_order(side(req["bid"].as_bool().unwrap()), u32f("vol"), u32f("trader"), opt32("price")) {
                Ok(id) => json!({"ok": true, "id": id}),
                Err(e) => json!({"ok": false, "err": e.to_string()}),
            },
            "env_cancel" => {
                env.as_mut().unwrap().0.cancel_order(u64f("id") as usize);
                json!({"ok": true})
            }
            "env_modify" => {
                env.as_mut().unwrap().0.modify_order(u64f("id") as usize, opt32("price"), opt32("vol"));
                json!({"ok": true})
            }
            "env_enable" => {
                env.as_mut().unwrap().0.enable_trading();
                json!({"ok": true})
            }
            "env_disable" => {
                env.as_mut().unwrap().0.disable_trading();
                json!({"ok": true})
            }
            "env_step" => {
                let (e, r) = env.as_mut().unwrap();
                e.step(r);
                json!({"ok": true})
            }
            "env_snapshot" => env_snapshot(&env.as_ref().unwrap().0),
            "quit" => break,
            _ => json!({"error": format!("unknown op {}", op)}),
        };
        let mut out = stdout.lock();
        let _ = writeln!(out, "{}", resp);
        let _ = out.flush();
    }
    0
}
