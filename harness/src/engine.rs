//! Driver shared by all checks: sharded proptest runners and enumerators, panic capture, replay
//! files, known-finding classification, evidence, exit codes.

use crate::ops::Failure;
use proptest::strategy::{BoxedStrategy, Strategy};
use proptest::test_runner::{Config, RngSeed, TestCaseError, TestError, TestRunner};
use serde::de::DeserializeOwned;
use serde::Serialize;
use serde_json::{json, Value};
use std::cell::RefCell;
use std::collections::{BTreeMap, HashSet};
use std::hash::{Hash, Hasher};
use std::path::PathBuf;
use std::sync::atomic::{AtomicBool, AtomicU64, Ordering};
use std::sync::Mutex;
use std::time::Instant;

#[derive(Clone, Copy, PartialEq, Eq, Debug)]
pub enum Tier {
    Quick,
    Thorough,
}

impl Tier {
    pub fn name(self) -> &'static str {
        match self {
            Tier::Quick => "quick",
            Tier::Thorough => "thorough",
        }
    }
    /// choose by tier
    pub fn pick<T>(self, quick: T, thorough: T) -> T {
        match self {
            Tier::Quick => quick,
            Tier::Thorough => thorough,
        }
    }
}

pub fn verif_root() -> PathBuf {
    std::env::var("VERIF_ROOT").map(PathBuf::from).unwrap_or_else(|_| PathBuf::from("/verif"))
}

/// Directory for transient files (snapshot files written and read back inside one case).
/// A tmpfs directory when available (the files live for microseconds), else /verif/.scratch.
pub fn scratch_dir() -> PathBuf {
    static DIR: std::sync::OnceLock<PathBuf> = std::sync::OnceLock::new();
    DIR.get_or_init(|| {
        let shm = PathBuf::from(format!("/dev/shm/bourse-verif-{}", std::process::id()));
        if std::env::var("VERIF_NO_SHM").is_err() && std::fs::create_dir_all(&shm).is_ok() {
            return shm;
        }
        let d = verif_root().join(".scratch");
        let _ = std::fs::create_dir_all(&d);
        d
    })
    .clone()
}

/// Remove the transient directory (called at the end of a run).
pub fn cleanup_scratch() {
    let d = scratch_dir();
    if d.starts_with("/dev/shm") {
        let _ = std::fs::remove_dir_all(d);
    }
}

pub fn n_threads() -> usize {
    std::env::var("VERIF_THREADS").ok().and_then(|s| s.parse().ok()).unwrap_or_else(|| std::thread::available_parallelism().map(|n| n.get()).unwrap_or(8)).max(1)
}

pub fn verif_seed() -> u64 {
    std::env::var("VERIF_SEED").ok().and_then(|s| s.trim().parse::<i128>().ok()).map(|v| v as u64).unwrap_or(0)
}

/// scale factor for case counts (testing the harness itself); 1.0 in registered commands
pub fn scale() -> f64 {
    std::env::var("VERIF_SCALE").ok().and_then(|s| s.parse().ok()).unwrap_or(1.0)
}

pub fn scaled(n: u64) -> u64 {
    ((n as f64) * scale()).ceil().max(1.0) as u64
}

// ------------------------------------------------------------------------------------------
// panic capture

thread_local! {
    static LAST_PANIC: RefCell<String> = RefCell::new(String::new());
    static LAST_PANIC_IN_BOURSE: RefCell<bool> = RefCell::new(false);
}

pub fn install_panic_hook() {
    std::panic::set_hook(Box::new(|info| {
        let loc = info.location().map(|l| format!("{}:{}", l.file(), l.line())).unwrap_or_default();
        let msg = if let Some(s) = info.payload().downcast_ref::<&str>() {
            s.to_string()
        } else if let Some(s) = info.payload().downcast_ref::<String>() {
            s.clone()
        } else {
            "panic".to_string()
        };
        // Was bourse code on the stack? (a panic raised in a dependency on behalf of bourse, e.g.
        // rand's gen_bool called by an agent, is bourse's; one raised by the harness itself is not)
        let in_bourse = loc.contains("/repo/") || {
            let bt = std::backtrace::Backtrace::force_capture().to_string();
            bt.lines().any(|l| (l.contains("bourse_book::") || l.contains("bourse_de::") || l.contains("bourse_macros::")) && !l.contains("bourse_verif"))
        };
        if !in_bourse {
            // kept for the report of a panic that escapes the per-case guards (any thread)
            let mut g = HARNESS_PANIC.lock().unwrap_or_else(|e| e.into_inner());
            if g.is_none() {
                *g = Some(format!("{} at {}", msg, loc));
            }
        }
        LAST_PANIC.with(|p| *p.borrow_mut() = format!("{} at {}", msg, loc));
        LAST_PANIC_IN_BOURSE.with(|p| *p.borrow_mut() = in_bourse);
    }));
}

static HARNESS_PANIC: Mutex<Option<String>> = Mutex::new(None);

/// first panic raised outside bourse code in any thread of this process
pub fn first_harness_panic() -> String {
    HARNESS_PANIC.lock().unwrap_or_else(|e| e.into_inner()).clone().unwrap_or_default()
}

pub fn last_panic() -> String {
    LAST_PANIC.with(|p| p.borrow().clone())
}

/// Shorten a repository path inside a panic location to its crate-relative tail.
fn short_loc(s: &str) -> String {
    let s = s.replace("/repo/crates/", "").replace("/repo/", "");
    // registry paths: keep the crate-relative tail only
    match (s.find("/.cargo/registry/src/"), s.rfind(" at ")) {
        (Some(i), Some(j)) if j < i => {
            let tail = &s[i + "/.cargo/registry/src/".len()..];
            let tail = tail.split_once('/').map(|x| x.1).unwrap_or(tail);
            format!("{} at {}", &s[..j], tail)
        }
        _ => s,
    }
}

/// Run `f`, turning a panic into a `Failure` of property `prop`. Panics raised by the harness's
/// own assertions (location under /verif) are re-raised: they are harness bugs, not findings.
pub fn guarded<T>(prop: &str, f: impl FnOnce() -> T) -> Result<T, Failure> {
    match std::panic::catch_unwind(std::panic::AssertUnwindSafe(f)) {
        Ok(v) => Ok(v),
        Err(e) => {
            let p = last_panic();
            // only a panic raised by (or on behalf of) bourse's own code is a finding about bourse
            let in_bourse = LAST_PANIC_IN_BOURSE.with(|b| *b.borrow());
            if !in_bourse || p.contains("harness:") {
                eprintln!("HARNESS-ERROR: {}", p);
                std::panic::resume_unwind(e);
            }
            let p = short_loc(&p);
            // signature: message without run-specific numbers + location
            let sig_msg: String = p.chars().map(|c| if c.is_ascii_digit() { '#' } else { c }).collect();
            let mut sig = String::new();
            let mut last_hash = false;
            for c in sig_msg.chars() {
                if c == '#' {
                    if !last_hash {
                        sig.push('#');
                    }
                    last_hash = true;
                } else {
                    sig.push(c);
                    last_hash = false;
                }
            }
            // keep the line number of the location: re-append the raw location
            let loc = p.rsplit(" at ").next().unwrap_or("").to_string();
            let head = sig.rsplit_once(" at ").map(|x| x.0.to_string()).unwrap_or(sig);
            Err(Failure::new(prop, &format!("{} panic: {} at {}", prop, head, loc), format!("panic: {}", p)))
        }
    }
}


// ------------------------------------------------------------------------------------------
// per-case non-termination watchdog
//
// A changed bourse can loop forever (and allocate without bound) inside one call; the oracle then never
// gets to look and the process would be killed by the OOM killer without a verdict. Every worker thread
// publishes the case it is executing; a monitor thread reads the workers' CPU time from /proc and the
// process's resident size. A case that has consumed more CPU time than `hang_limit_s` (ordinary cases
// take micro- to milliseconds), or is running while the process has grown beyond `RSS_LIMIT`, is written
// out as a replay file and re-executed in a child process under the same limits. Only if the child
// confirms (it does not terminate either, or fails an oracle) is a violation reported; otherwise the run
// is inconclusive (exit 2). CPU time, not wall time, so a loaded machine cannot trigger it.

pub struct Slot<C> {
    tid: u64,
    counter: AtomicU64,
    case: Mutex<Option<std::sync::Arc<C>>>,
}

pub type Slots<C> = std::sync::Arc<Mutex<Vec<std::sync::Arc<Slot<C>>>>>;

fn own_tid() -> u64 {
    std::fs::read_to_string("/proc/thread-self/stat").ok().and_then(|s| s.split_whitespace().next().and_then(|x| x.parse().ok())).unwrap_or(0)
}

/// user + system CPU time of a thread of this process, in clock ticks (USER_HZ = 100 on Linux)
fn thread_cpu_ticks(tid: u64) -> Option<u64> {
    let s = std::fs::read_to_string(format!("/proc/self/task/{}/stat", tid)).ok()?;
    // fields after the parenthesised command name
    let rest = s.rsplit_once(')')?.1;
    let f: Vec<&str> = rest.split_whitespace().collect();
    // rest starts at field 3 (state): utime = field 14, stime = field 15
    Some(f.get(11)?.parse::<u64>().ok()? + f.get(12)?.parse::<u64>().ok()?)
}

fn rss_bytes() -> u64 {
    std::fs::read_to_string("/proc/self/statm").ok().and_then(|s| s.split_whitespace().nth(1).and_then(|x| x.parse::<u64>().ok())).map(|p| p * 4096).unwrap_or(0)
}

const RSS_LIMIT: u64 = 10 << 30;

fn register_slot<C>(slots: &Slots<C>) -> std::sync::Arc<Slot<C>> {
    let s = std::sync::Arc::new(Slot { tid: own_tid(), counter: AtomicU64::new(0), case: Mutex::new(None) });
    slots.lock().unwrap().push(s.clone());
    s
}

fn run_in_slot<C>(slot: &Slot<C>, case: std::sync::Arc<C>, run: &(dyn Fn(&C) -> Outcome + Sync)) -> Outcome {
    *slot.case.lock().unwrap() = Some(case.clone());
    slot.counter.fetch_add(1, Ordering::SeqCst);
    let o = run(&case);
    *slot.case.lock().unwrap() = None;
    slot.counter.fetch_add(1, Ordering::SeqCst);
    o
}

fn spawn_hang_monitor<C>(id: &'static str, tier: Tier, limit_s: u64, slots: Slots<C>, done: std::sync::Arc<AtomicBool>)
where
    C: Serialize + Send + Sync + 'static,
{
    std::thread::spawn(move || {
        // per tid: (counter value, cpu ticks when that value was first seen)
        let mut seen: BTreeMap<u64, (u64, u64)> = BTreeMap::new();
        loop {
            std::thread::sleep(std::time::Duration::from_millis(250));
            if done.load(Ordering::Relaxed) {
                return;
            }
            let rss = rss_bytes();
            let list: Vec<std::sync::Arc<Slot<C>>> = slots.lock().unwrap().clone();
            let mut worst: Option<(u64, std::sync::Arc<Slot<C>>)> = None;
            for sl in list.iter() {
                let c = sl.counter.load(Ordering::SeqCst);
                let Some(cpu) = thread_cpu_ticks(sl.tid) else { continue };
                let e = seen.entry(sl.tid).or_insert((c, cpu));
                if e.0 != c {
                    *e = (c, cpu);
                    continue;
                }
                if c % 2 == 0 {
                    continue; // between cases
                }
                let used = cpu.saturating_sub(e.1);
                if worst.as_ref().map_or(true, |w| used > w.0) {
                    worst = Some((used, sl.clone()));
                }
            }
            let Some((used, sl)) = worst else { continue };
            let over_cpu = used > limit_s * 100;
            let over_mem = rss > RSS_LIMIT && used > 100;
            if !(over_cpu || over_mem) {
                continue;
            }
            let Some(case) = sl.case.lock().unwrap().clone() else { continue };
            let why = if over_cpu { format!("one case has used {:.0} s of CPU time (limit {} s; ordinary cases take milliseconds)", used as f64 / 100.0, limit_s) } else { format!("the process grew to {} MiB while one case has been running for {:.0} s of CPU time", rss >> 20, used as f64 / 100.0) };
            let f = Failure::new(id, &format!("{} an operation of the case does not terminate", id), format!("watchdog: {}", why));
            let p = write_replay(id, "watchdog", &*case, &f);
            eprintln!("note: {}; re-executing the case in a child process: {}", why, p.display());
            // confirm in a child process (its own watchdog applies the same limits)
            let exe = std::env::current_exe().unwrap_or_else(|_| PathBuf::from("verif"));
            let out = std::process::Command::new(exe).arg("replay").arg(id).arg(&p).env("VERIF_ROOT", verif_root()).env("VERIF_HANG_LIMIT_S", format!("{}", limit_s)).output();
            let code = out.as_ref().ok().and_then(|o| o.status.code());
            let seed = verif_seed();
            let write_ev = |violations: u64, note: &str| {
                let ev = json!({"property_id": id, "tier": tier.name(), "seed": seed as i64, "level": "exploration",
                    "coverage": {"evaluations": 0, "distinct_nontrivial": 0, "rule": "run ended by the per-case non-termination watchdog before statistics were collected", "samples": [serde_json::to_value(&*case).unwrap_or(Value::Null)], "exhaustive": false, "watchdog": note},
                    "assumptions": [], "wall_s": 0.0, "violations": violations});
                let evdir = verif_root().join("evidence");
                let _ = std::fs::create_dir_all(&evdir);
                let _ = std::fs::write(evdir.join(format!("{}.json", id)), serde_json::to_string_pretty(&ev).unwrap());
            };
            if code == Some(1) {
                println!("VIOLATION property={} replay={}", id, p.display());
                println!("  oracle: {}  signature: {}", f.prop, f.sig);
                println!("  {} - confirmed by re-executing the saved case in a separate process", f.msg);
                write_ev(1, &why);
                cleanup_scratch();
                std::process::exit(1);
            }
            let _ = std::fs::remove_file(&p);
            println!("INCONCLUSIVE property={} {} but the saved case terminated normally in a separate process (child exit {:?})", id, why, code);
            write_ev(0, &why);
            cleanup_scratch();
            std::process::exit(2);
        }
    });
}

// ------------------------------------------------------------------------------------------
// known findings

#[derive(Clone, Debug)]
pub struct Known {
    pub property: String,
    pub sig: String,
    pub what: String,
}

pub fn load_known() -> Vec<Known> {
    let p = verif_root().join("KNOWN_FINDINGS.txt");
    let mut v = vec![];
    if let Ok(s) = std::fs::read_to_string(p) {
        for line in s.lines() {
            let line = line.trim();
            if let Some(rest) = line.strip_prefix("known:") {
                // known: property=C05 sig=<signature> | <what fails>
                let rest = rest.trim();
                let (head, what) = rest.split_once('|').unwrap_or((rest, ""));
                let head = head.trim();
                if let Some(r) = head.strip_prefix("property=") {
                    if let Some((prop, sig)) = r.split_once(" sig=") {
                        v.push(Known { property: prop.trim().to_string(), sig: sig.trim().to_string(), what: what.trim().to_string() });
                    }
                }
            }
        }
    }
    v
}

// ------------------------------------------------------------------------------------------
// outcome of one case

#[derive(Clone, Debug, Default)]
pub struct Outcome {
    pub nontrivial: bool,
    /// 0/1 class memberships and additive counters, summed over cases
    pub classes: Vec<(&'static str, u64)>,
    pub result: Option<Failure>,
}

pub struct Part<C> {
    pub name: String,
    pub kind: PartKind<C>,
}

pub enum PartKind<C> {
    /// seeded random generation with shrinking: a strategy factory (called once per thread) and
    /// the number of cases
    Random { make: Box<dyn Fn() -> BoxedStrategy<C> + Sync>, cases: u64 },
    /// complete enumeration of a finite space: number of indices and index -> case
    Exhaustive { total: u64, decode: Box<dyn Fn(u64) -> Option<C> + Sync>, description: String },
}

pub struct CheckSpec<C> {
    pub id: &'static str,
    pub tier: Tier,
    pub rule: String,
    pub assumptions: Vec<String>,
    pub parts: Vec<Part<C>>,
    pub run: Box<dyn Fn(&C) -> Outcome + Sync>,
    /// optional extra shrinking applied to enumerated failures (and after proptest)
    pub simplify: Option<Box<dyn Fn(&C) -> Vec<C> + Sync>>,
    pub extra: Value,
    /// CPU seconds one case may take before it is treated as non-terminating (None: no per-case limit -
    /// checks whose cases are whole campaigns / simulations)
    pub hang_limit_s: Option<u64>,
}

#[derive(Default)]
struct Stats {
    evaluations: u64,
    nontrivial: HashSet<u64>,
    classes: BTreeMap<&'static str, u64>,
    samples: Vec<Value>,
    samples_in_part: u32,
    known_hits: BTreeMap<String, u64>,
}

fn hash_case<C: Hash>(c: &C) -> u64 {
    let mut h = std::collections::hash_map::DefaultHasher::new();
    c.hash(&mut h);
    h.finish()
}

pub struct Violation {
    pub replay: PathBuf,
    pub failure: Failure,
}

pub struct RunResult {
    pub violations: Vec<Violation>,
    pub known_lines: Vec<String>,
    pub evaluations: u64,
    pub distinct_nontrivial: u64,
}

fn write_replay<C: Serialize>(id: &str, part: &str, case: &C, f: &Failure) -> PathBuf {
    // VERIF_NO_SAVE (sensitivity runs against deliberately broken trees): keep the committed replay
    // tier clean, write the reproduction under .scratch instead
    let dir = if std::env::var("VERIF_NO_SAVE").is_ok() { verif_root().join(".scratch").join("found").join(id) } else { verif_root().join("replays").join(id) };
    let _ = std::fs::create_dir_all(&dir);
    let body = json!({"property": id, "part": part, "case": case, "failure": {"oracle_property": f.prop, "signature": f.sig, "message": f.msg}});
    let text = serde_json::to_string_pretty(&body).unwrap();
    let mut h = std::collections::hash_map::DefaultHasher::new();
    serde_json::to_string(&json!({"case": case})).unwrap().hash(&mut h);
    let p = dir.join(format!("found-{:016x}.json", h.finish()));
    let _ = std::fs::write(&p, text);
    p
}

/// Greedy simplification with a user-provided candidate generator, keeping the signature.
fn simplify_with<C: Clone>(spec: &CheckSpec<C>, case: C, sig: &str) -> C {
    let Some(simp) = spec.simplify.as_ref() else { return case };
    let mut cur = case;
    let mut budget = 20_000;
    loop {
        let mut improved = false;
        for cand in simp(&cur) {
            budget -= 1;
            if budget <= 0 {
                return cur;
            }
            let o = (spec.run)(&cand);
            if let Some(f) = o.result {
                if f.sig == sig {
                    cur = cand;
                    improved = true;
                    break;
                }
            }
        }
        if !improved {
            return cur;
        }
    }
}

pub fn run_check<C>(spec: CheckSpec<C>) -> i32
where
    C: Clone + std::fmt::Debug + Serialize + DeserializeOwned + Hash + Send + Sync + 'static,
{
    install_panic_hook();
    let start = Instant::now();
    let seed = verif_seed();
    let known = load_known();
    let known_for: Vec<Known> = known.iter().filter(|k| k.property == spec.id).cloned().collect();
    let is_known = |sig: &str| known_for.iter().find(|k| sig.starts_with(&k.sig)).cloned();

    let stats = Mutex::new(Stats::default());
    let violations: Mutex<Vec<Violation>> = Mutex::new(vec![]);
    let stop = AtomicBool::new(false);
    let mut part_reports: Vec<Value> = vec![];
    let mut any_exhaustive = false;
    let mut any_random = false;

    // per-case non-termination watchdog (see above)
    let slots: Slots<C> = std::sync::Arc::new(Mutex::new(vec![]));
    let all_done = std::sync::Arc::new(AtomicBool::new(false));
    if let Some(h) = spec.hang_limit_s {
        let h = std::env::var("VERIF_HANG_LIMIT_S").ok().and_then(|s| s.parse().ok()).unwrap_or(h);
        spawn_hang_monitor(spec.id, spec.tier, h, slots.clone(), all_done.clone());
    }

    // watchdog: never report slowness as a violation
    let limit_s: u64 = std::env::var("VERIF_WATCHDOG_S").ok().and_then(|s| s.parse().ok()).unwrap_or(spec.tier.pick(1500, 6 * 3600));
    {
        let id = spec.id;
        std::thread::spawn(move || {
            std::thread::sleep(std::time::Duration::from_secs(limit_s));
            println!("INCONCLUSIVE property={} watchdog after {} s", id, limit_s);
            cleanup_scratch();
            std::process::exit(2);
        });
    }

    let record = |st: &mut Stats, case: &C, o: &Outcome| {
        st.evaluations += 1;
        for (k, v) in o.classes.iter() {
            *st.classes.entry(k).or_default() += *v;
        }
        if o.nontrivial {
            let h = hash_case(case);
            if st.nontrivial.insert(h) && st.samples_in_part < 2 {
                st.samples_in_part += 1;
                st.samples.push(serde_json::to_value(case).unwrap_or(Value::Null));
            }
        }
    };

    // ---- replay tier
    let main_slot = register_slot(&slots);
    let replay_dir = verif_root().join("replays").join(spec.id);
    let mut replayed = 0u64;
    if let Ok(rd) = std::fs::read_dir(&replay_dir) {
        let mut files: Vec<PathBuf> = rd.filter_map(|e| e.ok()).map(|e| e.path()).filter(|p| p.extension().map_or(false, |x| x == "json")).collect();
        files.sort();
        for p in files {
            let Ok(text) = std::fs::read_to_string(&p) else { continue };
            let Ok(v) = serde_json::from_str::<Value>(&text) else { continue };
            let Ok(case) = serde_json::from_value::<C>(v["case"].clone()) else {
                eprintln!("note: replay file {} does not decode as a case of {}; skipped", p.display(), spec.id);
                continue;
            };
            replayed += 1;
            let case = std::sync::Arc::new(case);
            let o = run_in_slot(&main_slot, case.clone(), &*spec.run);
            let mut st = stats.lock().unwrap();
            record(&mut st, &case, &o);
            if let Some(f) = o.result {
                if let Some(k) = is_known(&f.sig) {
                    *st.known_hits.entry(k.sig.clone()).or_default() += 1;
                } else {
                    violations.lock().unwrap().push(Violation { replay: p.clone(), failure: f });
                }
            }
        }
    }
    part_reports.push(json!({"part": "replay", "kind": "saved regressions", "cases": replayed}));

    // ---- generated parts
    let threads = n_threads();
    for (pi, part) in spec.parts.iter().enumerate() {
        if !violations.lock().unwrap().is_empty() {
            break;
        }
        let t0 = Instant::now();
        stats.lock().unwrap().samples_in_part = 0;
        let before = stats.lock().unwrap().evaluations;
        match &part.kind {
            PartKind::Random { make, cases } => {
                any_random = true;
                let cases = scaled(*cases);
                let per = (cases + threads as u64 - 1) / threads as u64;
                std::thread::scope(|s| {
                    for th in 0..threads {
                        let stats = &stats;
                        let violations = &violations;
                        let stop = &stop;
                        let spec = &spec;
                        let is_known = &is_known;
                        let record = &record;
                        let name = part.name.clone();
                        let slots = &slots;
                        s.spawn(move || {
                            let slot = register_slot(slots);
                            let strat = make();
                            let mut sm = seed ^ 0x9E37_79B9_7F4A_7C15u64.wrapping_mul(1 + pi as u64 * 131 + th as u64);
                            sm = sm.wrapping_mul(0xBF58_476D_1CE4_E5B9).rotate_left(17) ^ (th as u64) << 40 ^ (pi as u64) << 52;
                            let cfg = Config {
                                cases: per as u32,
                                failure_persistence: None,
                                rng_seed: RngSeed::Fixed(sm),
                                max_shrink_iters: 30000,
                                max_shrink_time: 25_000,
                                verbose: 0,
                                ..Config::default()
                            };
                            let mut runner = TestRunner::new(cfg);
                            let failing_sig: RefCell<Option<String>> = RefCell::new(None);
                            let res = runner.run(&strat, |case| {
                                if failing_sig.borrow().is_none() && stop.load(Ordering::Relaxed) {
                                    return Ok(());
                                }
                                let case = std::sync::Arc::new(case);
                                let o = run_in_slot(&slot, case.clone(), &*spec.run);
                                let case: &C = &case;
                                let shrinking = failing_sig.borrow().is_some();
                                if !shrinking {
                                    let mut st = stats.lock().unwrap();
                                    record(&mut st, case, &o);
                                    if let Some(f) = &o.result {
                                        if let Some(k) = is_known(&f.sig) {
                                            *st.known_hits.entry(k.sig.clone()).or_default() += 1;
                                            return Ok(());
                                        }
                                    }
                                }
                                match o.result {
                                    None => Ok(()),
                                    Some(f) => {
                                        if let Some(sig) = failing_sig.borrow().as_ref() {
                                            if *sig != f.sig {
                                                return Ok(());
                                            }
                                            return Err(TestCaseError::fail(f.sig));
                                        }
                                        if is_known(&f.sig).is_some() {
                                            return Ok(());
                                        }
                                        *failing_sig.borrow_mut() = Some(f.sig.clone());
                                        stop.store(true, Ordering::Relaxed);
                                        Err(TestCaseError::fail(f.sig))
                                    }
                                }
                            });
                            if let Err(TestError::Fail(_, case)) = res {
                                let sig = failing_sig.borrow().clone().unwrap_or_default();
                                let case = simplify_with(spec, case, &sig);
                                let o = (spec.run)(&case);
                                let f = o.result.unwrap_or_else(|| Failure::new(spec.id, &sig, "failure did not reproduce on the shrunk case".into()));
                                let p = write_replay(spec.id, &name, &case, &f);
                                violations.lock().unwrap().push(Violation { replay: p, failure: f });
                            } else if let Err(TestError::Abort(r)) = res {
                                eprintln!("note: proptest aborted part {}: {}", name, r);
                            }
                        });
                    }
                });
                let done = stats.lock().unwrap().evaluations - before;
                part_reports.push(json!({"part": part.name, "kind": "random (proptest, seeded, shrinking)", "cases": done, "wall_s": t0.elapsed().as_secs_f64()}));
            }
            PartKind::Exhaustive { total, decode, description } => {
                any_exhaustive = true;
                let next = AtomicU64::new(0);
                let chunk: u64 = (*total / (threads as u64 * 8)).clamp(1, 2048);
                let skipped = AtomicU64::new(0);
                let first_fail: Mutex<Option<(u64, C, Failure)>> = Mutex::new(None);
                std::thread::scope(|s| {
                    for _ in 0..threads {
                        let stats = &stats;
                        let spec = &spec;
                        let is_known = &is_known;
                        let record = &record;
                        let next = &next;
                        let skipped = &skipped;
                        let first_fail = &first_fail;
                        let slots = &slots;
                        s.spawn(move || {
                            let slot = register_slot(slots);
                            let mut local = Stats::default();
                            loop {
                                let a = next.fetch_add(chunk, Ordering::Relaxed);
                                if a >= *total {
                                    break;
                                }
                                if let Some((fi, _, _)) = first_fail.lock().unwrap().as_ref() {
                                    if *fi < a {
                                        break;
                                    }
                                }
                                for i in a..(a + chunk).min(*total) {
                                    let Some(case) = decode(i) else {
                                        skipped.fetch_add(1, Ordering::Relaxed);
                                        continue;
                                    };
                                    let case = std::sync::Arc::new(case);
                                    let o = run_in_slot(&slot, case.clone(), &*spec.run);
                                    record(&mut local, &case, &o);
                                    if let Some(f) = o.result {
                                        if let Some(k) = is_known(&f.sig) {
                                            *local.known_hits.entry(k.sig.clone()).or_default() += 1;
                                            continue;
                                        }
                                        let mut ff = first_fail.lock().unwrap();
                                        if ff.as_ref().map_or(true, |x| i < x.0) {
                                            *ff = Some((i, (*case).clone(), f));
                                        }
                                        break;
                                    }
                                }
                            }
                            let mut st = stats.lock().unwrap();
                            st.evaluations += local.evaluations;
                            for (k, v) in local.classes {
                                *st.classes.entry(k).or_default() += v;
                            }
                            for h in local.nontrivial {
                                st.nontrivial.insert(h);
                            }
                            for s in local.samples {
                                if st.samples_in_part < 2 {
                                    st.samples_in_part += 1;
                                    st.samples.push(s);
                                }
                            }
                            for (k, v) in local.known_hits {
                                *st.known_hits.entry(k).or_default() += v;
                            }
                        });
                    }
                });
                let ff = first_fail.into_inner().unwrap();
                let complete = ff.is_none();
                if let Some((_, case, f)) = ff {
                    let case = simplify_with(&spec, case, &f.sig);
                    let f2 = (spec.run)(&case).result.unwrap_or(f);
                    let p = write_replay(spec.id, &part.name, &case, &f2);
                    violations.lock().unwrap().push(Violation { replay: p, failure: f2 });
                }
                let done = stats.lock().unwrap().evaluations - before;
                part_reports.push(json!({"part": part.name, "kind": "bounded-exhaustive enumeration", "space": description, "indices": total, "cases": done,
                    "equivalent_or_invalid_indices_skipped": skipped.load(Ordering::Relaxed), "complete": complete, "wall_s": t0.elapsed().as_secs_f64()}));
            }
        }
    }

    // ---- report
    all_done.store(true, Ordering::Relaxed);
    let st = stats.into_inner().unwrap();
    let violations = violations.into_inner().unwrap();
    let mut known_report = serde_json::Map::new();
    for k in known_for.iter() {
        let n = st.known_hits.get(&k.sig).cloned().unwrap_or(0);
        if n > 0 {
            println!("KNOWN-FINDING: property={} {} [{} cases; signature: {}]", spec.id, k.what, n, k.sig);
        }
        known_report.insert(k.sig.clone(), json!({"cases_hitting_it_excluded_from_search": n, "what": k.what}));
    }
    for v in violations.iter() {
        println!("VIOLATION property={} replay={}", spec.id, v.replay.display());
        println!("  oracle: {}  signature: {}", v.failure.prop, v.failure.sig);
        println!("  {}", v.failure.msg);
    }
    let wall = start.elapsed().as_secs_f64();
    let mut classes = serde_json::Map::new();
    for (k, v) in st.classes.iter() {
        classes.insert(k.to_string(), json!(v));
    }
    let mut samples = st.samples.clone();
    if samples.is_empty() {
        samples.push(json!("no non-trivial case was generated in this run"));
    }
    let mut coverage = json!({
        "evaluations": st.evaluations,
        "distinct_nontrivial": st.nontrivial.len(),
        "rule": spec.rule,
        "samples": samples,
        // true only if the whole run was a complete enumeration; per-part completeness is in "parts"
        "exhaustive": any_exhaustive && !any_random && violations.is_empty(),
        "has_complete_exhaustive_parts": any_exhaustive && violations.is_empty(),
        "parts": part_reports,
        "class_counts": classes,
        "known_findings": known_report,
        "threads": threads,
    });
    if let (Some(obj), Some(extra)) = (coverage.as_object_mut(), spec.extra.as_object()) {
        for (k, v) in extra {
            obj.insert(k.clone(), v.clone());
        }
    }
    let ev = json!({
        "property_id": spec.id,
        "tier": spec.tier.name(),
        "seed": seed as i64,
        "level": "exploration",
        "coverage": coverage,
        "assumptions": spec.assumptions,
        "wall_s": wall,
        "violations": violations.len(),
    });
    let evdir = verif_root().join("evidence");
    let _ = std::fs::create_dir_all(&evdir);
    let _ = std::fs::write(evdir.join(format!("{}.json", spec.id)), serde_json::to_string_pretty(&ev).unwrap());
    println!(
        "{} {}: {} cases, {} distinct non-trivial, {} violation(s), {:.1} s",
        spec.id,
        spec.tier.name(),
        st.evaluations,
        st.nontrivial.len(),
        violations.len(),
        wall
    );
    cleanup_scratch();
    if violations.is_empty() {
        0
    } else {
        1
    }
}

/// Plain regression run of one replay file, bypassing every generator library.
pub fn replay_one<C>(id: &str, path: &str, run: impl Fn(&C) -> Outcome + Sync) -> i32
where
    C: DeserializeOwned + std::fmt::Debug + Sync,
{
    install_panic_hook();
    let text = match std::fs::read_to_string(path) {
        Ok(t) => t,
        Err(e) => {
            eprintln!("cannot read {}: {}", path, e);
            return 2;
        }
    };
    let v: Value = match serde_json::from_str(&text) {
        Ok(v) => v,
        Err(e) => {
            eprintln!("cannot parse {}: {}", path, e);
            return 2;
        }
    };
    let case: C = match serde_json::from_value(v["case"].clone()) {
        Ok(c) => c,
        Err(e) => {
            eprintln!("{} is not a case of {}: {}", path, id, e);
            return 2;
        }
    };
    // run the case on a worker thread under the same non-termination limits as the checks
    let limit_s: u64 = std::env::var("VERIF_HANG_LIMIT_S").ok().and_then(|s| s.parse().ok()).unwrap_or(20);
    let tid_cell = AtomicU64::new(0);
    let o = std::thread::scope(|s| {
        let h = s.spawn(|| {
            tid_cell.store(own_tid(), Ordering::SeqCst);
            run(&case)
        });
        loop {
            if h.is_finished() {
                match h.join() {
                    Ok(o) => return o,
                    Err(e) => std::panic::resume_unwind(e),
                }
            }
            std::thread::sleep(std::time::Duration::from_millis(100));
            let tid = tid_cell.load(Ordering::SeqCst);
            let cpu = if tid != 0 { thread_cpu_ticks(tid).unwrap_or(0) } else { 0 };
            let rss = rss_bytes();
            if cpu > limit_s * 100 || (rss > RSS_LIMIT && cpu > 100) {
                println!("VIOLATION property={} replay={}", id, path);
                println!("  oracle: {}  signature: {} an operation of the case does not terminate", id, id);
                println!("  the case has used {:.0} s of CPU time and {} MiB without finishing (ordinary cases take milliseconds)", cpu as f64 / 100.0, rss >> 20);
                std::process::exit(1);
            }
        }
    });
    match o.result {
        None => {
            println!("replay {}: property {} held", path, id);
            0
        }
        Some(f) => {
            let known = load_known();
            if let Some(k) = known.iter().find(|k| k.property == id && f.sig.starts_with(&k.sig)) {
                println!("KNOWN-FINDING: property={} {}", id, k.what);
                println!("  {}", f.msg);
                return 0;
            }
            println!("VIOLATION property={} replay={}", id, path);
            println!("  oracle: {}  signature: {}", f.prop, f.sig);
            println!("  {}", f.msg);
            1
        }
    }
}

pub fn boxed<C: std::fmt::Debug + 'static>(s: impl Strategy<Value = C> + 'static) -> BoxedStrategy<C> {
    s.boxed()
}
