//! Byte decoders shared with the libFuzzer targets: bytes -> the same operation language as the
//! proptest generators, through `arbitrary::Unstructured`, and the in-target oracles.

use crate::checks::{book, envchk, Case};
use crate::envcase::{EnvCase, Instr, StepSpec};
use crate::market::MARKET_LEVELS;
use crate::ops::{BookCase, Op, Ref};
use arbitrary::Unstructured;
use std::sync::OnceLock;

fn price(u: &mut Unstructured, tick: u32, mid: u32, wide: bool) -> arbitrary::Result<u32> {
    let b = u.int_in_range(0u8..=255)?;
    if wide && b >= 240 {
        let km = crate::gen::kmax(tick);
        Ok(u.int_in_range(1..=km)? * tick)
    } else {
        Ok((mid - 3 + (b % 7) as u32) * tick)
    }
}

fn rf(u: &mut Unstructured) -> arbitrary::Result<Ref> {
    let b = u.int_in_range(0u8..=11)?;
    let pref = match b {
        0..=1 => 0,
        2 => 1,
        3..=8 => 2,
        9 => 3,
        10 => 4,
        _ => 5,
    };
    Ok(Ref { pref, ix: u.arbitrary()? })
}

pub fn decode_book_case(data: &[u8]) -> arbitrary::Result<BookCase> {
    let mut u = Unstructured::new(data);
    let ticks = [1u32, 2, 3, 4, 5, 6, 7, 8, 9, 10, 16, 64, 1000, 65_536];
    let tick = ticks[u.int_in_range(0..=ticks.len() - 1)?];
    let levels = u.int_in_range(1usize..=24)?;
    let flags: u8 = u.arbitrary()?;
    let trading = flags & 7 != 0;
    let tie = flags & 0x18 == 0x18;
    let wide = flags & 0x20 != 0;
    let mid = u.int_in_range(4u32..=1000)?.min(crate::gen::kmax(tick) - 4);
    let t0 = u.int_in_range(0u64..=1000)?;
    let mut ops = vec![];
    while !u.is_empty() && ops.len() < 120 {
        let code = u.int_in_range(0u8..=31)?;
        let op = match code {
            0..=9 => {
                let bid = u.arbitrary()?;
                let vol = 1 + u.int_in_range(0u32..=11)?;
                let pr = if u.int_in_range(0u8..=4)? == 0 { None } else { Some(price(&mut u, tick, mid, wide)?) };
                Op::CreatePlace { bid, vol, trader: u.int_in_range(0u32..=5)?, price: pr }
            }
            10 => {
                let bid = u.arbitrary()?;
                let vol = 1 + u.int_in_range(0u32..=11)?;
                let pr = if u.int_in_range(0u8..=4)? == 0 { None } else { Some(price(&mut u, tick, mid, wide)?) };
                Op::Create { bid, vol, trader: u.int_in_range(0u32..=5)?, price: pr }
            }
            11..=12 => Op::Place(Ref { pref: 1, ix: u.arbitrary()? }),
            13 => Op::EvNew(Ref { pref: 1, ix: u.arbitrary()? }),
            14..=16 => Op::Cancel(rf(&mut u)?),
            17 => Op::EvCancel(rf(&mut u)?),
            18..=22 => {
                let r = rf(&mut u)?;
                let pr = if u.arbitrary()? { Some(price(&mut u, tick, mid, wide)?) } else { None };
                let vol = if u.arbitrary()? { Some(1 + u.int_in_range(0u32..=13)?) } else { None };
                if code == 22 {
                    Op::EvModify { r, price: pr, vol }
                } else {
                    Op::Modify { r, price: pr, vol }
                }
            }
            23 => Op::ModifyRel { r: rf(&mut u)?, price: None, dvol: u.int_in_range(-1i8..=1)? },
            24..=26 => Op::Advance(u.int_in_range(0u64..=3)?),
            27 => Op::Trading(u.arbitrary()?),
            28 => Op::ResetTradeVol,
            29 => Op::Reload(u.int_in_range(0u8..=1)?),
            _ => Op::Advance(1),
        };
        ops.push(op);
    }
    Ok(BookCase { tick, levels, trading, t0, tie, ops, drain: true, quiet: quiet_mask(data), bulk: vec![] })
}

/// quiet operations / steps for fuzz inputs: a function of the whole input (a third of the inputs get a mask), so
/// that the decoding of the operations themselves is unchanged
fn quiet_mask(data: &[u8]) -> u64 {
    if data.len() % 3 != 0 {
        return 0;
    }
    data.iter().fold(0xcbf2_9ce4_8422_2325u64, |h, b| (h ^ *b as u64).wrapping_mul(0x0000_0100_0000_01b3))
}

fn prop_env() -> &'static str {
    static P: OnceLock<String> = OnceLock::new();
    P.get_or_init(|| std::env::var("VERIF_FUZZ_PROP").unwrap_or_default())
}

fn static_prop(p: &str, default: &'static str) -> &'static str {
    const ALL: [&str; 20] = ["C01", "C02", "C03", "C04", "C05", "C06", "C07", "C08", "C09", "C10", "C11", "C12", "C13", "C14", "C15", "C16", "C17", "C18", "C19", "C20"];
    ALL.iter().find(|x| **x == p).cloned().unwrap_or(default)
}

/// In-target oracle for book histories. A failure panics (libFuzzer then saves the input).
pub fn fuzz_book(data: &[u8]) {
    static HOOK: OnceLock<()> = OnceLock::new();
    HOOK.get_or_init(crate::engine::install_panic_hook);
    let Ok(mut case) = decode_book_case(data) else { return };
    let sel = prop_env();
    let ids: Vec<&'static str> = if sel.is_empty() { vec!["C05", "C04", "C13"] } else { vec![static_prop(sel, "C05")] };
    for id in ids {
        // C05's oracle set needs tie mode; every other property is stated under clock discipline
        case.tie = id == "C05";
        let o = book::outcome(id, &case);
        if let Some(f) = o.result {
            let known = crate::engine::load_known();
            if known.iter().any(|k| k.property == id && f.sig.starts_with(&k.sig)) {
                continue;
            }
            eprintln!("FUZZ-FAILURE property={} signature={} :: {}", id, f.sig, f.msg);
            std::process::abort();
        }
    }
}

pub fn decode_env_case(data: &[u8]) -> arbitrary::Result<EnvCase> {
    let mut u = Unstructured::new(data);
    let kind_assets = u.int_in_range(0u8..=4)?;
    let n = (kind_assets as usize).max(1);
    let levels = if kind_assets == 0 { u.int_in_range(1usize..=24)? } else { MARKET_LEVELS[u.int_in_range(0..=MARKET_LEVELS.len() - 1)?] };
    let mut ticks = vec![];
    let mut mids = vec![];
    for _ in 0..n {
        ticks.push(u.int_in_range(1u32..=10)?);
        mids.push(u.int_in_range(6u32..=1000)?);
    }
    let steps_sizes = [16u64, 17, 100, 1000];
    let step_size = steps_sizes[u.int_in_range(0..=3)?];
    let seed: u64 = u.arbitrary()?;
    let trading = u.int_in_range(0u8..=7)? != 0;
    let mut steps = vec![];
    while !u.is_empty() && steps.len() < 8 {
        let nb = u.int_in_range(0usize..=12)?;
        let toggle = if u.int_in_range(0u8..=15)? == 0 { Some(u.arbitrary()?) } else { None };
        let mut instrs = vec![];
        for _ in 0..nb {
            if u.is_empty() {
                break;
            }
            let a = u.int_in_range(0..=n - 1)?;
            let code = u.int_in_range(0u8..=9)?;
            let (tick, mid) = (ticks[a], mids[a]);
            let ins = match code {
                0..=5 => {
                    let bid: bool = u.arbitrary()?;
                    let d = u.int_in_range(0u32..=5)?;
                    let pr = if u.int_in_range(0u8..=6)? == 0 { None } else { Some(if bid { (mid - 3 + d.min(4)) * tick } else { (mid - 1 + d.min(4)) * tick }) };
                    Instr::New { asset: a as u8, bid, vol: 1 + u.int_in_range(0u32..=11)?, trader: u.int_in_range(0u32..=5)?, price: pr }
                }
                6..=7 => Instr::Cancel { asset: a as u8, r: Ref { pref: u.int_in_range(0u8..=2)?, ix: u.arbitrary()? } },
                _ => {
                    let pr = if u.arbitrary()? { Some((mid - 3 + u.int_in_range(0u32..=6)?) * tick) } else { None };
                    let vol = if u.arbitrary()? { Some(1 + u.int_in_range(0u32..=11)?) } else { None };
                    Instr::Modify { asset: a as u8, r: Ref { pref: u.int_in_range(0u8..=2)?, ix: u.arbitrary()? }, price: pr, vol }
                }
            };
            instrs.push(ins);
        }
        steps.push(StepSpec { toggle, instrs });
    }
    if steps.is_empty() {
        steps.push(StepSpec { toggle: None, instrs: vec![] });
    }
    Ok(EnvCase { kind_assets, levels, ticks, t0: 0, step_size, trading, seed, steps, drain: true, exact_vols: false, quiet_steps: quiet_mask(data) })
}

pub fn fuzz_env(data: &[u8]) {
    static HOOK: OnceLock<()> = OnceLock::new();
    HOOK.get_or_init(crate::engine::install_panic_hook);
    let Ok(case) = decode_env_case(data) else { return };
    let sel = prop_env();
    let ids: Vec<&'static str> = if sel.is_empty() { vec!["C08", "C10", "C11"] } else { vec![static_prop(sel, "C08")] };
    for id in ids {
        if id == "C14" && case.kind_assets == 0 {
            continue;
        }
        let o = envchk::env_outcome(id, &case);
        if let Some(f) = o.result {
            let known = crate::engine::load_known();
            if known.iter().any(|k| k.property == id && f.sig.starts_with(&k.sig)) {
                continue;
            }
            eprintln!("FUZZ-FAILURE property={} signature={} :: {}", id, f.sig, f.msg);
            std::process::abort();
        }
    }
}

/// `verif fuzz-decode <book|env> <file>`: print the decoded case of a fuzz input as JSON.
pub fn decode_main(kind: &str, path: &str) -> i32 {
    let Ok(data) = std::fs::read(path) else {
        eprintln!("cannot read {}", path);
        return 2;
    };
    let case = match kind {
        "book" => decode_book_case(&data).map(Case::Book),
        _ => decode_env_case(&data).map(Case::Env),
    };
    match case {
        Ok(c) => {
            println!("{}", serde_json::to_string(&c).unwrap());
            0
        }
        Err(_) => 2,
    }
}
