use bourse_verif::checks;
use bourse_verif::engine::Tier;

fn usage() -> ! {
    eprintln!("usage: verif check <ID> <quick|thorough> | verif replay <ID> <file>");
    std::process::exit(2);
}

fn main() {
    let args: Vec<String> = std::env::args().collect();
    if args.len() < 2 {
        usage();
    }
    let code = match args[1].as_str() {
        "check" if args.len() >= 4 => {
            let tier = match args[3].as_str() {
                "quick" => Tier::Quick,
                "thorough" => Tier::Thorough,
                _ => usage(),
            };
            // a panic that escapes the per-case guards is the harness's own (the panic hook is silent): say so, exit 2
            match std::panic::catch_unwind(|| checks::run(&args[2], tier)) {
                Ok(c) => c,
                Err(_) => {
                    println!("INCONCLUSIVE property={} the harness itself panicked: {} (first: {})", args[2], bourse_verif::engine::last_panic(), bourse_verif::engine::first_harness_panic());
                    2
                }
            }
        }
        "replay" if args.len() >= 4 => match std::panic::catch_unwind(|| checks::replay(&args[2], &args[3])) {
            Ok(c) => c,
            Err(_) => {
                println!("INCONCLUSIVE property={} the harness itself panicked: {} (first: {})", args[2], bourse_verif::engine::last_panic(), bourse_verif::engine::first_harness_panic());
                2
            }
        },
        "fuzz-decode" if args.len() >= 4 => bourse_verif::decode::decode_main(&args[2], &args[3]),
        "oracle-server" => bourse_verif::oracle::server_main(),
        "c09-child" if args.len() >= 3 => checks::c09::child_main(args[2] == "1"),
        _ => usage(),
    };
    std::process::exit(code);
}
