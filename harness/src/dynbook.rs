//! Object-safe facade over `OrderBook<LEVELS>` for every `LEVELS` in 1..=24, so that the number
//! of published levels can be a generated value.

use crate::model::{OrderRec, St, TradeRec};
use bourse_book::types::{Event, Order, Side, Status, Trade};
use bourse_book::OrderBook;

pub const MAX_LEVELS: usize = 24;

pub fn side_of(bid: bool) -> Side {
    if bid {
        Side::Bid
    } else {
        Side::Ask
    }
}

pub fn is_bid(s: Side) -> bool {
    matches!(s, Side::Bid)
}

pub fn st_of(s: Status) -> St {
    match s {
        Status::New => St::New,
        Status::Active => St::Active,
        Status::Filled => St::Filled,
        Status::Cancelled => St::Cancelled,
        Status::Rejected => St::Rejected,
        #[allow(unreachable_patterns)]
        _ => St::Other,
    }
}

pub fn order_rec(o: &Order) -> OrderRec {
    OrderRec {
        bid: is_bid(o.side),
        status: st_of(o.status),
        arr_time: o.arr_time,
        end_time: o.end_time,
        vol: o.vol,
        start_vol: o.start_vol,
        price: o.price,
        trader: o.trader_id,
        id: o.order_id,
    }
}

pub fn trade_rec(t: &Trade) -> TradeRec {
    TradeRec {
        t: t.t,
        bid: is_bid(t.side),
        price: t.price,
        vol: t.vol,
        active: t.active_order_id,
        passive: t.passive_order_id,
    }
}

/// Level-1 record flattened: bid_price, ask_price, bid_vol, ask_vol, bid_touch_vol,
/// ask_touch_vol, bid_touch_orders, ask_touch_orders
pub type L1 = [u32; 8];

#[derive(Clone, Debug, PartialEq, Eq)]
pub struct L2 {
    pub bid_price: u32,
    pub ask_price: u32,
    pub bid_vol: u32,
    pub ask_vol: u32,
    pub bid_levels: Vec<(u32, u32)>,
    pub ask_levels: Vec<(u32, u32)>,
}

#[derive(Clone, Debug)]
pub enum Ev {
    New(usize),
    Cancel(usize),
    Modify(usize, Option<u32>, Option<u32>),
}

impl Ev {
    pub fn to_event(&self) -> Event<usize> {
        match *self {
            Ev::New(i) => Event::New { order_id: i },
            Ev::Cancel(i) => Event::Cancellation { order_id: i },
            Ev::Modify(i, p, v) => Event::Modify {
                order_id: i,
                new_price: p,
                new_vol: v,
            },
        }
    }
}

pub trait DynBook {
    fn levels(&self) -> usize;
    fn get_time(&self) -> u64;
    fn set_time(&mut self, t: u64);
    fn enable_trading(&mut self);
    fn disable_trading(&mut self);
    fn get_trade_vol(&self) -> u32;
    fn reset_trade_vol(&mut self);
    fn ask_vol(&self) -> u32;
    fn ask_best_vol(&self) -> u32;
    fn ask_best_vol_and_orders(&self) -> (u32, u32);
    fn ask_levels(&self) -> Vec<(u32, u32)>;
    fn bid_vol(&self) -> u32;
    fn bid_best_vol(&self) -> u32;
    fn bid_best_vol_and_orders(&self) -> (u32, u32);
    fn bid_levels(&self) -> Vec<(u32, u32)>;
    fn bid_ask(&self) -> (u32, u32);
    fn mid_price(&self) -> f64;
    fn level_1_data(&self) -> L1;
    fn level_2_data(&self) -> L2;
    fn n_orders(&self) -> usize;
    fn order(&self, id: usize) -> OrderRec;
    fn create_order(&mut self, bid: bool, vol: u32, trader: u32, price: Option<u32>) -> Result<usize, String>;
    fn create_and_place_order(&mut self, bid: bool, vol: u32, trader: u32, price: Option<u32>) -> Result<usize, String>;
    fn place_order(&mut self, id: usize);
    fn cancel_order(&mut self, id: usize);
    fn modify_order(&mut self, id: usize, price: Option<u32>, vol: Option<u32>);
    fn process_event(&mut self, ev: &Ev);
    fn orders(&self) -> Vec<OrderRec>;
    fn trades(&self) -> Vec<TradeRec>;
    fn n_trades(&self) -> usize;
    fn trades_from(&self, from: usize) -> Vec<TradeRec>;
    fn to_json(&self, pretty: bool) -> String;
    fn save_json(&self, path: &std::path::Path, pretty: bool) -> Result<(), String>;
}

pub fn l2_of<const L: usize>(d: &bourse_book::types::Level2Data<L>) -> L2 {
    L2 {
        bid_price: d.bid_price,
        ask_price: d.ask_price,
        bid_vol: d.bid_vol,
        ask_vol: d.ask_vol,
        bid_levels: d.bid_price_levels.to_vec(),
        ask_levels: d.ask_price_levels.to_vec(),
    }
}

impl<const L: usize> DynBook for OrderBook<L> {
    fn levels(&self) -> usize {
        L
    }
    fn get_time(&self) -> u64 {
        OrderBook::get_time(self)
    }
    fn set_time(&mut self, t: u64) {
        let _ = OrderBook::set_time(self, t);
    }
    fn enable_trading(&mut self) {
        let _ = OrderBook::enable_trading(self);
    }
    fn disable_trading(&mut self) {
        let _ = OrderBook::disable_trading(self);
    }
    fn get_trade_vol(&self) -> u32 {
        OrderBook::get_trade_vol(self)
    }
    fn reset_trade_vol(&mut self) {
        let _ = OrderBook::reset_trade_vol(self);
    }
    fn ask_vol(&self) -> u32 {
        OrderBook::ask_vol(self)
    }
    fn ask_best_vol(&self) -> u32 {
        OrderBook::ask_best_vol(self)
    }
    fn ask_best_vol_and_orders(&self) -> (u32, u32) {
        OrderBook::ask_best_vol_and_orders(self)
    }
    fn ask_levels(&self) -> Vec<(u32, u32)> {
        OrderBook::ask_levels(self).to_vec()
    }
    fn bid_vol(&self) -> u32 {
        OrderBook::bid_vol(self)
    }
    fn bid_best_vol(&self) -> u32 {
        OrderBook::bid_best_vol(self)
    }
    fn bid_best_vol_and_orders(&self) -> (u32, u32) {
        OrderBook::bid_best_vol_and_orders(self)
    }
    fn bid_levels(&self) -> Vec<(u32, u32)> {
        OrderBook::bid_levels(self).to_vec()
    }
    fn bid_ask(&self) -> (u32, u32) {
        OrderBook::bid_ask(self)
    }
    fn mid_price(&self) -> f64 {
        OrderBook::mid_price(self)
    }
    fn level_1_data(&self) -> L1 {
        let d = OrderBook::level_1_data(self);
        [
            d.bid_price,
            d.ask_price,
            d.bid_vol,
            d.ask_vol,
            d.bid_touch_vol,
            d.ask_touch_vol,
            d.bid_touch_orders,
            d.ask_touch_orders,
        ]
    }
    fn level_2_data(&self) -> L2 {
        l2_of(&OrderBook::level_2_data(self))
    }
    fn n_orders(&self) -> usize {
        OrderBook::get_orders(self).len()
    }
    fn order(&self, id: usize) -> OrderRec {
        order_rec(OrderBook::order(self, id))
    }
    fn create_order(&mut self, bid: bool, vol: u32, trader: u32, price: Option<u32>) -> Result<usize, String> {
        OrderBook::create_order(self, side_of(bid), vol, trader, price).map_err(|e| e.to_string())
    }
    fn create_and_place_order(&mut self, bid: bool, vol: u32, trader: u32, price: Option<u32>) -> Result<usize, String> {
        OrderBook::create_and_place_order(self, side_of(bid), vol, trader, price).map_err(|e| e.to_string())
    }
    fn place_order(&mut self, id: usize) {
        let _ = OrderBook::place_order(self, id);
    }
    fn cancel_order(&mut self, id: usize) {
        let _ = OrderBook::cancel_order(self, id);
    }
    fn modify_order(&mut self, id: usize, price: Option<u32>, vol: Option<u32>) {
        let _ = OrderBook::modify_order(self, id, price, vol);
    }
    fn process_event(&mut self, ev: &Ev) {
        let _ = OrderBook::process_event(self, ev.to_event());
    }
    fn orders(&self) -> Vec<OrderRec> {
        OrderBook::get_orders(self).into_iter().map(order_rec).collect()
    }
    fn trades(&self) -> Vec<TradeRec> {
        OrderBook::get_trades(self).iter().map(trade_rec).collect()
    }
    fn n_trades(&self) -> usize {
        OrderBook::get_trades(self).len()
    }
    fn trades_from(&self, from: usize) -> Vec<TradeRec> {
        OrderBook::get_trades(self)[from..].iter().map(trade_rec).collect()
    }
    fn to_json(&self, pretty: bool) -> String {
        if pretty {
            serde_json::to_string_pretty(self).unwrap()
        } else {
            serde_json::to_string(self).unwrap()
        }
    }
    fn save_json(&self, path: &std::path::Path, pretty: bool) -> Result<(), String> {
        OrderBook::save_json(self, path, pretty).map_err(|e| e.to_string())
    }
}

macro_rules! by_levels {
    ($l:expr, $f:ident, $($arg:expr),*) => {
        match $l {
            1 => $f::<1>($($arg),*), 2 => $f::<2>($($arg),*), 3 => $f::<3>($($arg),*), 4 => $f::<4>($($arg),*),
            5 => $f::<5>($($arg),*), 6 => $f::<6>($($arg),*), 7 => $f::<7>($($arg),*), 8 => $f::<8>($($arg),*),
            9 => $f::<9>($($arg),*), 10 => $f::<10>($($arg),*), 11 => $f::<11>($($arg),*), 12 => $f::<12>($($arg),*),
            13 => $f::<13>($($arg),*), 14 => $f::<14>($($arg),*), 15 => $f::<15>($($arg),*), 16 => $f::<16>($($arg),*),
            17 => $f::<17>($($arg),*), 18 => $f::<18>($($arg),*), 19 => $f::<19>($($arg),*), 20 => $f::<20>($($arg),*),
            21 => $f::<21>($($arg),*), 22 => $f::<22>($($arg),*), 23 => $f::<23>($($arg),*), 24 => $f::<24>($($arg),*),
            _ => panic!("harness: unsupported LEVELS {}", $l),
        }
    };
}


#[allow(unused_imports)]
pub(crate) use by_levels;

fn mk<const L: usize>(t: u64, tick: u32, trading: bool) -> Box<dyn DynBook> {
    Box::new(OrderBook::<L>::new(t, tick, trading))
}
fn from_str<const L: usize>(s: &str) -> Result<Box<dyn DynBook>, String> {
    serde_json::from_str::<OrderBook<L>>(s)
        .map(|b| Box::new(b) as Box<dyn DynBook>)
        .map_err(|e| e.to_string())
}
fn from_file<const L: usize>(p: &std::path::Path) -> Result<Box<dyn DynBook>, String> {
    OrderBook::<L>::load_json(p)
        .map(|b| Box::new(b) as Box<dyn DynBook>)
        .map_err(|e| e.to_string())
}

pub fn new_book(levels: usize, t: u64, tick: u32, trading: bool) -> Box<dyn DynBook> {
    by_levels!(levels, mk, t, tick, trading)
}
pub fn book_from_str(levels: usize, s: &str) -> Result<Box<dyn DynBook>, String> {
    by_levels!(levels, from_str, s)
}
pub fn book_from_file(levels: usize, p: &std::path::Path) -> Result<Box<dyn DynBook>, String> {
    by_levels!(levels, from_file, p)
}
