//! Generates struct *shapes* for C20 (derived agent sets) as source code: a fixed family (every
//! field count 1..8 x 4 type patterns) and a generated family, for both derive macros, each with its
//! hand-written sequence of calls.

use std::fmt::Write;

struct Lcg(u64);
impl Lcg {
    fn next(&mut self) -> u64 {
        self.0 = self.0.wrapping_add(0x9E37_79B9_7F4A_7C15);
        let mut z = self.0;
        z = (z ^ (z >> 30)).wrapping_mul(0xBF58_476D_1CE4_E5B9);
        z = (z ^ (z >> 27)).wrapping_mul(0x94D0_49BB_1331_11EB);
        z ^ (z >> 31)
    }
    fn below(&mut self, n: usize) -> usize {
        (self.next() % n as u64) as usize
    }
}

const NAMES: [&str; 40] = [
    "zeta", "_b", "r#type", "alpha", "m2", "r#loop", "_", "x", "omega", "Beta", "_9", "r#match", "k", "agent_two", "a", "yy", "r#fn", "noise", "__", "delta", "c", "r#async", "Q", "w1", "momentum", "b", "_z", "r#impl", "inner", "arb", "h",
    "r#ref", "t0", "_aa", "second", "first", "z", "y", "r#mod", "lambda",
];

#[derive(Clone)]
enum Ty {
    ProbeA,
    ProbeB,
    Builtin,
    Nested(usize),
    /// a derived set of the BASE family (module `single` / `multi`), named by path from a `_b` module
    NestedBase(usize),
    /// a generic probe agent (or another spelling of a probe type) whose type is written with tokens that a
    /// derive macro has to skip over correctly: `->`, `>>`, `<<`, commas and brackets inside generic arguments
    Generic(usize),
}

/// spellings of a field type for `Ty::Generic` (all of them agents: ProbeG<T> implements the agent trait for every T).
/// Not included: array lengths written as block / operator expressions (`[u8; { 1 + 2 }]`, `[u8; (1 << 2) as usize]`):
/// the pinned macros reject them at compile time (syn without its "full" feature: "unsupported expression"), loudly,
/// so there is no derived set whose behaviour could be compared.
const GENERIC_TYPES: [&str; 21] = [
    "ProbeG<u8>",
    "ProbeG<fn(u64) -> bool>",
    "ProbeG<Box<dyn Fn(u64) -> bool>>",
    "ProbeG<Vec<Vec<u8>>>",
    "ProbeG<(u8, u16)>",
    "ProbeG<[u8; 3]>",
    "ProbeG<&'static str>",
    "ProbeG<fn(u8, u16) -> (u8, u16)>",
    "<ProbeA as Same>::Out",
    "(ProbeB)",
    "ProbeG<ProbeG<u8>>",
    "ProbeG<dyn Fn() -> u8>",
    "ProbeG<for<'a> fn(&'a u8) -> &'a u8>",
    "ProbeG<u8,>",
    "ProbeG<std::collections::HashMap<u8, Vec<(u8, u16)>>>",
    "ProbeG<*const u8>",
    "ProbeG<Option<fn() -> Result<u8, u16>>>",
    "ProbeG<[fn(u8) -> u8; 2]>",
    "ProbeG<()>",
    // a stateless, zero-sized agent (it still takes its draw and places its order on every update)
    "ProbeZ",
    "ProbeG<ProbeZ>",
];

struct Shape {
    fields: Vec<(String, Ty)>,
    depth: usize,
}

/// Second family (`single_b` / `multi_b`): struct names S0.. collide with the base family's on purpose, and
/// members may be sets of the base family named by path (`super::single::S7`) whose last segment equals the
/// name of an earlier set of this module.
fn gen_shapes_b(seed: u64, n: usize, base_depth0: &[usize]) -> Vec<Shape> {
    let mut r = Lcg(seed);
    let mut shapes: Vec<Shape> = vec![];
    for k in 0..n {
        let nf = 1 + r.below(6);
        let mut fields = vec![];
        let mut depth = 0;
        for i in 0..nf {
            let c = r.below(13);
            let ty = if c >= 10 {
                Ty::Generic(r.below(GENERIC_TYPES.len()))
            } else if c < 3 {
                Ty::ProbeA
            } else if c < 6 {
                Ty::ProbeB
            } else if c < 8 && k > 0 {
                // a base-family set whose index is below k: this module already declared a set of that name
                let cands: Vec<usize> = base_depth0.iter().cloned().filter(|j| *j < k).collect();
                if cands.is_empty() {
                    Ty::ProbeA
                } else {
                    depth = depth.max(1);
                    Ty::NestedBase(cands[r.below(cands.len())])
                }
            } else {
                let cands: Vec<usize> = shapes.iter().enumerate().filter(|(_, s)| s.depth == 0).map(|(j, _)| j).collect();
                if cands.is_empty() {
                    Ty::ProbeB
                } else {
                    depth = depth.max(1);
                    Ty::Nested(cands[r.below(cands.len())])
                }
            };
            fields.push((format!("{}{}", ["m", "a", "_z", "k"][r.below(4)], i), ty));
        }
        shapes.push(Shape { fields, depth });
    }
    // every spelling of a generic member type once in FIRST, once in a MIDDLE and once in LAST position
    for g in 0..GENERIC_TYPES.len() {
        let g2 = (g * 7 + 3) % GENERIC_TYPES.len();
        shapes.push(Shape { fields: vec![("g0".to_string(), Ty::Generic(g)), ("a1".to_string(), Ty::ProbeA), ("g2".to_string(), Ty::Generic(g2)), ("b3".to_string(), Ty::ProbeB), ("m4".to_string(), Ty::Generic(g))], depth: 0 });
    }
    shapes
}

fn gen_shapes(seed: u64, fixed: bool, extra: usize) -> Vec<Shape> {
    let mut r = Lcg(seed);
    let mut shapes: Vec<Shape> = vec![];
    let pick_names = |r: &mut Lcg, n: usize| -> Vec<String> {
        let mut v: Vec<String> = vec![];
        while v.len() < n {
            let c = NAMES[r.below(NAMES.len())];
            if c == "_" || c == "__" {
                // `_` alone is not a field name; keep the pool entry as a prefix
                let s = format!("{}f{}", c, v.len());
                if !v.contains(&s) {
                    v.push(s);
                }
                continue;
            }
            if !v.iter().any(|x| x == c) {
                v.push(c.to_string());
            }
        }
        v
    };
    if fixed {
        // every field count 1..8 x 4 type patterns
        for n in 1..=8usize {
            for pat in 0..4usize {
                let names = pick_names(&mut r, n);
                let mut fields = vec![];
                let mut depth = 0;
                for (i, nm) in names.into_iter().enumerate() {
                    let ty = match pat {
                        0 => Ty::ProbeA,                                              // one repeated type
                        1 => {
                            if i % 2 == 0 {
                                Ty::ProbeA
                            } else {
                                Ty::ProbeB
                            }
                        }
                        2 => {
                            // mixed with a built-in agent in the middle
                            if i == n / 2 {
                                Ty::Builtin
                            } else if i % 3 == 0 {
                                Ty::ProbeB
                            } else {
                                Ty::ProbeA
                            }
                        }
                        _ => {
                            // nested: an earlier shape (of depth 0, then depth 1) as a member
                            let cands: Vec<usize> = shapes.iter().enumerate().filter(|(_, s)| s.depth <= 1).map(|(k, _)| k).collect();
                            if i % 2 == 1 && !cands.is_empty() {
                                let k = cands[r.below(cands.len())];
                                depth = depth.max(shapes[k].depth + 1);
                                Ty::Nested(k)
                            } else if i % 4 == 0 {
                                Ty::ProbeB
                            } else {
                                Ty::ProbeA
                            }
                        }
                    };
                    fields.push((nm, ty));
                }
                shapes.push(Shape { fields, depth });
            }
        }
    }
    for _ in 0..extra {
        let n = 1 + r.below(8);
        let names = pick_names(&mut r, n);
        let mut fields = vec![];
        let mut depth = 0;
        for nm in names {
            let k = r.below(10);
            let ty = if k < 4 {
                Ty::ProbeA
            } else if k < 7 {
                Ty::ProbeB
            } else if k < 8 {
                Ty::Builtin
            } else {
                let cands: Vec<usize> = shapes.iter().enumerate().filter(|(_, s)| s.depth <= 1).map(|(k, _)| k).collect();
                if cands.is_empty() {
                    Ty::ProbeA
                } else {
                    let j = cands[r.below(cands.len())];
                    depth = depth.max(shapes[j].depth + 1);
                    Ty::Nested(j)
                }
            };
            fields.push((nm, ty));
        }
        shapes.push(Shape { fields, depth });
    }
    shapes
}

fn emit(out: &mut String, module: &str, base: &str, market: bool, shapes: &[Shape], base_shapes: &[Shape]) {
    let (derive, agent_trait, set_trait, env_ty, gen_sig) = if market {
        ("MarketAgentSet", "MarketAgent", "MarketAgentSet", "MarketEnv<M, N>", "<R: RngCore, const M: usize, const N: usize>")
    } else {
        ("AgentSet", "Agent", "AgentSet", "Env", "<R: RngCore>")
    };
    writeln!(out, "#[allow(non_snake_case, dead_code, unused_imports, clippy::all)]\npub mod {} {{", module).unwrap();
    writeln!(out, "    use super::probes_{}::*;", base).unwrap();
    let second = module != base;
    writeln!(out, "    use bourse_de::agents::{{{}, {}}};", agent_trait, set_trait).unwrap();
    writeln!(out, "    use bourse_de::{{Env, MarketEnv}};\n    use rand::RngCore;").unwrap();
    for (k, s) in shapes.iter().enumerate() {
        writeln!(out, "    #[derive({})]\n    pub struct S{} {{", derive, k).unwrap();
        for (nm, ty) in s.fields.iter() {
            let t = match ty {
                Ty::ProbeA => "ProbeA".to_string(),
                Ty::ProbeB => "ProbeB".to_string(),
                Ty::Builtin => "Builtin".to_string(),
                Ty::Nested(j) => format!("S{}", j),
                Ty::NestedBase(j) => format!("super::{}::S{}", base, j),
                Ty::Generic(g) => GENERIC_TYPES[*g].to_string(),
            };
            // some fields carry doc comments / attributes (they are attributes to the derive macro)
            let h = nm.bytes().fold(k as u64 * 31 + 7, |a, b| a.wrapping_mul(131).wrapping_add(b as u64));
            match h % 9 {
                0 => writeln!(out, "        /// member `{}` of shape {}", nm.trim_start_matches("r#"), k).unwrap(),
                1 => writeln!(out, "        #[allow(dead_code)]").unwrap(),
                2 if h % 3 == 0 => writeln!(out, "        /// documented\n        #[allow(unused)]").unwrap(),
                // tool attributes, conditional compilation that is always on, doc attributes: all legal on a
                // field, none of them means anything to the derive macros
                3 => writeln!(out, "        #[rustfmt::skip]").unwrap(),
                4 => writeln!(out, "        #[cfg(all())]").unwrap(),
                5 if h % 2 == 0 => writeln!(out, "        #[doc(hidden)]").unwrap(),
                6 if h % 2 == 0 => writeln!(out, "        #[cfg_attr(all(), allow(dead_code))]\n        #[clippy::skip]").unwrap(),
                _ => {}
            }
            // every fifth shape of the base family and every second one of the second family is all-`pub`
            let all_pub = if second { k % 2 == 0 } else { k % 5 == 0 };
            let vis = if all_pub { "pub " } else { ["pub ", "pub(crate) ", "", "pub(super) "][(h / 11 % 4) as usize] };
            writeln!(out, "        {}{}: {},", vis, nm, t).unwrap();
        }
        writeln!(out, "    }}").unwrap();
        writeln!(out, "    impl S{} {{", k).unwrap();
        writeln!(out, "        pub fn build(tag: &mut u32) -> Self {{\n            Self {{").unwrap();
        for (nm, ty) in s.fields.iter() {
            let e = match ty {
                Ty::ProbeA => "ProbeA::new(tag)".to_string(),
                Ty::ProbeB => "ProbeB::new(tag)".to_string(),
                Ty::Builtin => "new_builtin(tag)".to_string(),
                Ty::Nested(j) => format!("S{}::build(tag)", j),
                Ty::NestedBase(j) => format!("super::{}::S{}::build(tag)", base, j),
                Ty::Generic(g) => if GENERIC_TYPES[*g].starts_with("<ProbeA") { "ProbeA::new(tag)".to_string() } else if GENERIC_TYPES[*g].starts_with("(ProbeB") { "ProbeB::new(tag)".to_string() } else if GENERIC_TYPES[*g] == "ProbeZ" { "ProbeZ::new(tag)".to_string() } else { "ProbeG::new(tag)".to_string() },
            };
            writeln!(out, "                {}: {},", nm, e).unwrap();
        }
        writeln!(out, "            }}\n        }}").unwrap();
        // the hand-written equivalent
        writeln!(out, "        pub fn manual{}(&mut self, env: &mut {}, rng: &mut R) {{", gen_sig, env_ty).unwrap();
        for (nm, ty) in s.fields.iter() {
            match ty {
                Ty::Nested(_) | Ty::NestedBase(_) => writeln!(out, "            self.{}.manual(env, rng);", nm).unwrap(),
                Ty::Builtin => writeln!(out, "            builtin_update(&mut self.{}, env, rng);", nm).unwrap(),
                _ => writeln!(out, "            {}::update(&mut self.{}, env, rng);", agent_trait, nm).unwrap(),
            }
        }
        writeln!(out, "        }}\n    }}").unwrap();
    }
    // dispatcher
    writeln!(out, "    pub const N_SHAPES: usize = {};", shapes.len()).unwrap();
    writeln!(out, "    pub fn run_shape(idx: usize, derived: bool, seed: u64, calls: usize) -> super::ShapeRun {{\n        match idx {{").unwrap();
    for k in 0..shapes.len() {
        writeln!(out, "            {} => super::drive_{}!(S{}, derived, seed, calls),", k, base, k).unwrap();
    }
    writeln!(out, "            _ => panic!(\"harness: no such shape\"),\n        }}\n    }}").unwrap();
    // descriptions
    writeln!(out, "    /// (fields, leaf agents, has repeated type, has nested set, has built-in agent, names in lexicographic order)").unwrap();
    writeln!(out, "    pub const INFO: [(usize, usize, bool, bool, bool, bool); {}] = [", shapes.len()).unwrap();
    for s in shapes.iter() {
        fn leaves(shapes: &[Shape], base: &[Shape], s: &Shape) -> usize {
            s.fields.iter().map(|(_, t)| match t { Ty::Nested(j) => leaves(shapes, base, &shapes[*j]), Ty::NestedBase(j) => leaves(base, base, &base[*j]), _ => 1 }).sum()
        }
        let a = s.fields.iter().filter(|(_, t)| matches!(t, Ty::ProbeA)).count();
        let b = s.fields.iter().filter(|(_, t)| matches!(t, Ty::ProbeB)).count();
        let nested = s.fields.iter().any(|(_, t)| matches!(t, Ty::Nested(_) | Ty::NestedBase(_)));
        let builtin = s.fields.iter().any(|(_, t)| matches!(t, Ty::Builtin));
        let names: Vec<String> = s.fields.iter().map(|(n, _)| n.trim_start_matches("r#").to_string()).collect();
        let mut sorted = names.clone();
        sorted.sort();
        writeln!(out, "        ({}, {}, {}, {}, {}, {}),", s.fields.len(), leaves(shapes, base_shapes, s), a >= 2 || b >= 2, nested, builtin, sorted == names).unwrap();
        let _ = base_shapes;
    }
    writeln!(out, "    ];\n}}").unwrap();
}

fn main() {
    println!("cargo:rerun-if-changed=build.rs");
    let shapes_single = gen_shapes(20, true, 96);
    let shapes_multi = gen_shapes(21, true, 96);
    let mut out = String::new();
    let with_shapes = std::env::var("CARGO_FEATURE_SHAPES").is_ok();
    let with_b = std::env::var("CARGO_FEATURE_SHAPES_B").is_ok();
    let stub = |out: &mut String, module: &str, alias: Option<&str>| match alias {
        Some(a) => writeln!(out, "pub mod {} {{ pub use super::{}::{{run_shape, INFO, N_SHAPES}}; }}", module, a).unwrap(),
        None => writeln!(out, "pub mod {} {{ pub const N_SHAPES: usize = 0; pub const INFO: [(usize, usize, bool, bool, bool, bool); 0] = []; pub fn run_shape(_: usize, _: bool, _: u64, _: usize) -> super::ShapeRun {{ panic!(\"harness: struct shapes are switched off\") }} }}", module).unwrap(),
    };
    if !with_shapes {
        for m in ["single", "multi", "single_b", "multi_b"] {
            stub(&mut out, m, None);
        }
        let dir = std::env::var("OUT_DIR").unwrap();
        std::fs::write(std::path::Path::new(&dir).join("shapes.rs"), out).unwrap();
        return;
    }
    emit(&mut out, "single", "single", false, &shapes_single, &shapes_single);
    emit(&mut out, "multi", "multi", true, &shapes_multi, &shapes_multi);
    if !with_b {
        stub(&mut out, "single_b", Some("single"));
        stub(&mut out, "multi_b", Some("multi"));
        let dir = std::env::var("OUT_DIR").unwrap();
        std::fs::write(std::path::Path::new(&dir).join("shapes.rs"), out).unwrap();
        return;
    }
    // second family: colliding struct names, members named by path into the base family
    let d0 = |v: &[Shape]| -> Vec<usize> { v.iter().enumerate().filter(|(_, s)| s.depth == 0 && s.fields.len() >= 2).map(|(k, _)| k).collect() };
    let b_single = gen_shapes_b(22, 40, &d0(&shapes_single));
    let b_multi = gen_shapes_b(23, 40, &d0(&shapes_multi));
    emit(&mut out, "single_b", "single", false, &b_single, &shapes_single);
    emit(&mut out, "multi_b", "multi", true, &b_multi, &shapes_multi);
    let dir = std::env::var("OUT_DIR").unwrap();
    std::fs::write(std::path::Path::new(&dir).join("shapes.rs"), out).unwrap();
}
