"""Shared machinery of the Python-side checks (C18, C19): oracle client, evidence, replay files."""
import hashlib
import json
import os
import subprocess
import sys
import time

ROOT = os.environ.get("VERIF_ROOT", "/verif")
SEED = int(os.environ.get("VERIF_SEED", "0") or 0)
SCALE = float(os.environ.get("VERIF_SCALE", "1") or 1)
MAXU32 = 2**32 - 1
MAXU64 = 2**64 - 1

STATUS_CODE = {"New": 0, "Active": 1, "Filled": 2, "Cancelled": 3, "Rejected": 4}


class Oracle:
    """Client of `verif oracle-server` (drives bourse_book / bourse_de directly, no PyO3)."""

    def __init__(self):
        exe = os.path.join(ROOT, "harness", "target", "release", "verif")
        self.p = subprocess.Popen([exe, "oracle-server"], stdin=subprocess.PIPE, stdout=subprocess.PIPE, text=True, bufsize=1)

    def call(self, op, **kw):
        kw["op"] = op
        self.p.stdin.write(json.dumps(kw) + "\n")
        self.p.stdin.flush()
        line = self.p.stdout.readline()
        if not line:
            raise RuntimeError("harness: oracle server died on %r" % (kw,))
        return json.loads(line)

    def close(self):
        try:
            self.p.stdin.write('{"op":"quit"}\n')
            self.p.stdin.flush()
            self.p.wait(timeout=5)
        except Exception:
            self.p.kill()


class Violation(Exception):
    def __init__(self, sig, msg):
        super().__init__(msg)
        self.sig = sig
        self.msg = msg


class Guarded:
    """Proxy around an object of the compiled extension: an exception other than the two documented ones
    (ValueError for an off-grid price, OverflowError for an out-of-range integer; both handled by the caller)
    raised by a call the Rust core accepts is a failure of the property, not of the harness."""

    def __init__(self, obj, prop, what):
        object.__setattr__(self, "_obj", obj)
        object.__setattr__(self, "_prop", prop)
        object.__setattr__(self, "_what", what)
        object.__setattr__(self, "_expect", ())

    def expecting(self, *types):
        """Context manager: inside it the listed documented exception types may be raised by the extension (the
        caller judges them); outside it a ValueError / OverflowError is raised for arguments that are in range and
        on the grid by construction, which the property forbids."""
        outer = self

        class _Ctx:
            def __enter__(self_inner):
                object.__setattr__(outer, "_expect", tuple(types))

            def __exit__(self_inner, *a):
                object.__setattr__(outer, "_expect", ())
                return False

        return _Ctx()

    def _convert(self, name, args, ex):
        if isinstance(ex, (ValueError, OverflowError)) and not isinstance(ex, self._expect):
            return Violation("%s %s raised for in-range, on-grid arguments" % (self._prop, type(ex).__name__), "%s.%s%r raised %r" % (self._what, name, args, ex))
        if isinstance(ex, (ValueError, OverflowError)) or type(ex).__name__ == "PanicException" or isinstance(ex, (KeyboardInterrupt, SystemExit, MemoryError)):
            return ex
        return Violation("%s Python call raised an undocumented exception" % self._prop, "%s.%s%r raised %r" % (self._what, name, args, ex))

    def __getattr__(self, name):
        try:
            attr = getattr(self._obj, name)
        except AttributeError:
            raise
        except BaseException as ex:  # a property getter of the extension raised
            raise self._convert(name, (), ex)
        if not callable(attr):
            return attr

        def call(*a, **k):
            try:
                return attr(*a, **k)
            except BaseException as ex:  # noqa
                c = self._convert(name, a + tuple(sorted(k.items())), ex)
                if c is ex:
                    raise
                raise c

        return call


def order_tuple_from_oracle(o):
    """Documented tuple layout of an order: side (True = bid), status code, arrival, end, volume,
    starting volume, price, trader id, order id."""
    return (o["bid"], STATUS_CODE.get(o["status"], -1), o["arr_time"], o["end_time"], o["vol"], o["start_vol"], o["price"], o["trader_id"], o["order_id"])


def trade_tuple_from_oracle(t):
    return (t["t"], t["bid"], t["price"], t["vol"], t["active"], t["passive"])


def load_known(prop):
    out = []
    try:
        for line in open(os.path.join(ROOT, "KNOWN_FINDINGS.txt")):
            line = line.strip()
            if line.startswith("known:"):
                head, _, what = line[len("known:"):].partition("|")
                head = head.strip()
                if head.startswith("property=") and " sig=" in head:
                    p, sig = head[len("property="):].split(" sig=", 1)
                    if p.strip() == prop:
                        out.append((sig.strip(), what.strip()))
    except FileNotFoundError:
        pass
    return out


def write_replay(prop, part, case, sig, msg):
    sub = os.path.join(".scratch", "found", prop) if os.environ.get("VERIF_NO_SAVE") else os.path.join("replays", prop)
    d = os.path.join(ROOT, sub)
    os.makedirs(d, exist_ok=True)
    body = {"property": prop, "part": part, "case": case, "failure": {"signature": sig, "message": msg}}
    h = hashlib.sha1(json.dumps(case, sort_keys=True).encode()).hexdigest()[:16]
    path = os.path.join(d, "found-%s.json" % h)
    json.dump(body, open(path, "w"), indent=1)
    return path


def write_evidence(prop, tier, coverage, assumptions, wall, violations):
    ev = {"property_id": prop, "tier": tier, "seed": SEED, "level": "exploration", "coverage": coverage, "assumptions": assumptions, "wall_s": wall, "violations": violations}
    os.makedirs(os.path.join(ROOT, "evidence"), exist_ok=True)
    json.dump(ev, open(os.path.join(ROOT, "evidence", "%s.json" % prop), "w"), indent=1)


class Stats:
    def __init__(self):
        self.evaluations = 0
        self.nontrivial = set()
        self.samples = []
        self.classes = {}
        self.parts = []

    def record(self, case, nontrivial, classes):
        self.evaluations += 1
        for k, v in classes.items():
            self.classes[k] = self.classes.get(k, 0) + v
        if nontrivial:
            h = hashlib.sha1(json.dumps(case, sort_keys=True).encode()).hexdigest()
            if h not in self.nontrivial:
                self.nontrivial.add(h)
                if len(self.samples) < 3:
                    self.samples.append(case)


def _run_random_parts(prop, parts, stats, known, known_hits, violations, shard, shards):
    """Runs the Hypothesis parts (this process's share of the cases). Appends to `violations` tuples (path, sig, msg)."""
    import hypothesis
    from hypothesis import HealthCheck, given, settings

    def is_known(sig):
        for s, what in known:
            if sig.startswith(s):
                return (s, what)
        return None

    for pi, (name, n_cases, strategy, runner) in enumerate(parts):
        if violations:
            break
        if isinstance(strategy, list):
            # an enumerated part: every listed case is run once (this shard's share), no generator library involved
            before = stats.evaluations
            tp = time.time()
            for case in strategy[shard::shards]:
                try:
                    try:
                        nt, cl = runner(case)
                    except BaseException as e:  # noqa
                        if type(e).__name__ == "PanicException":
                            raise Violation("%s panic inside the compiled extension" % prop, repr(e)[:500])
                        raise
                    stats.record(case, nt, cl)
                except Violation as v:
                    k = is_known(v.sig)
                    if k:
                        known_hits[k[0]] = known_hits.get(k[0], 0) + 1
                        continue
                    path = write_replay(prop, name, case, v.sig, v.msg)
                    violations.append((path, v.sig, v.msg))
                    break
            stats.parts.append({"part": name, "kind": "enumerated (every listed case once)", "cases": stats.evaluations - before, "wall_s": time.time() - tp})
            continue
        n_cases = max(1, int(n_cases * SCALE))
        # this shard's share
        n_cases = n_cases // shards + (1 if shard < n_cases % shards else 0)
        if n_cases == 0:
            continue
        before = stats.evaluations
        tp = time.time()
        state = {"failing": None}

        @hypothesis.seed(SEED * 1000003 + 1 + pi + 7919 * shard)
        @settings(max_examples=n_cases, database=None, deadline=None, derandomize=False, suppress_health_check=list(HealthCheck), print_blob=False, report_multiple_bugs=False, phases=[hypothesis.Phase.generate, hypothesis.Phase.shrink])
        @given(strategy)
        def test(case):
            try:
                try:
                    nt, cl = runner(case)
                except BaseException as e:  # noqa
                    # a Rust panic inside the extension surfaces as pyo3_runtime.PanicException
                    if type(e).__name__ == "PanicException":
                        raise Violation("%s panic inside the compiled extension" % prop, repr(e)[:500])
                    raise
            except Violation as v:
                if is_known(v.sig) and state["failing"] is None:
                    known_hits[is_known(v.sig)[0]] = known_hits.get(is_known(v.sig)[0], 0) + 1
                    return
                if state["failing"] is not None and state["failing"] != v.sig:
                    return  # keep shrinking on one signature
                state["failing"] = v.sig
                state["last"] = (case, v)
                raise AssertionError(v.sig)
            if state["failing"] is None:
                stats.record(case, nt, cl)

        try:
            test()
        except AssertionError:
            case, v = state["last"]
            path = write_replay(prop, name, case, v.sig, v.msg)
            violations.append((path, v.sig, v.msg))
        stats.parts.append({"part": name, "kind": "random (Hypothesis, seeded, shrinking)", "cases": stats.evaluations - before, "wall_s": time.time() - tp})


def run_parts(prop, tier, parts, rule, assumptions, replay_runner):
    """parts: list of (name, n_cases, strategy, runner(case) -> (nontrivial, classes) raising Violation).
    The random parts are sharded over worker processes (each its own interpreter, extension module and oracle
    server, Hypothesis seed derived from VERIF_SEED and the shard number); the parent replays the saved
    regressions, merges the workers' statistics and writes the evidence."""
    t0 = time.time()
    known = load_known(prop)
    shard_env = os.environ.get("VERIF_PY_SHARD")
    if shard_env is not None:
        # ---- worker
        shard, shards = int(shard_env), int(os.environ["VERIF_PY_SHARDS"])
        stats, known_hits, violations = Stats(), {}, []
        _run_random_parts(prop, parts, stats, known, known_hits, violations, shard, shards)
        out = {"evaluations": stats.evaluations, "nontrivial": sorted(stats.nontrivial), "samples": stats.samples, "classes": stats.classes, "parts": stats.parts, "known_hits": known_hits, "violations": violations}
        json.dump(out, open(os.environ["VERIF_PY_OUT"], "w"))
        return 0

    stats = Stats()
    known_hits = {}
    violations = []

    def is_known(sig):
        for s, what in known:
            if sig.startswith(s):
                return (s, what)
        return None

    # replay tier
    rdir = os.path.join(ROOT, "replays", prop)
    n_rep = 0
    if os.path.isdir(rdir):
        for f in sorted(os.listdir(rdir)):
            if not f.endswith(".json"):
                continue
            body = json.load(open(os.path.join(rdir, f)))
            n_rep += 1
            try:
                nt, cl = replay_runner(body["part"], body["case"])
                stats.record(body["case"], nt, cl)
            except Violation as v:
                k = is_known(v.sig)
                if k:
                    known_hits[k[0]] = known_hits.get(k[0], 0) + 1
                else:
                    violations.append((os.path.join(rdir, f), v.sig, v.msg))
    stats.parts.append({"part": "replay", "kind": "saved regressions", "cases": n_rep})

    inconclusive = 0
    if not violations:
        shards = max(1, int(os.environ.get("VERIF_PY_WORKERS", "0") or 0) or min(12, os.cpu_count() or 1))
        sdir = os.path.join(ROOT, ".scratch", "pyshards-%s-%d" % (prop, os.getpid()))
        os.makedirs(sdir, exist_ok=True)
        procs = []
        for k in range(shards):
            env = dict(os.environ)
            env.update({"VERIF_PY_SHARD": str(k), "VERIF_PY_SHARDS": str(shards), "VERIF_PY_OUT": os.path.join(sdir, "shard-%d.json" % k)})
            log = open(os.path.join(sdir, "shard-%d.log" % k), "w")
            procs.append((k, subprocess.Popen([sys.executable, sys.argv[0], tier], env=env, stdout=log, stderr=subprocess.STDOUT), log))
        per_part = {}
        for k, p, log in procs:
            rc = p.wait()
            log.close()
            path = os.path.join(sdir, "shard-%d.json" % k)
            if rc != 0 or not os.path.exists(path):
                inconclusive += 1
                sys.stderr.write("note: python worker %d exited %s without a result:\n%s\n" % (k, rc, open(os.path.join(sdir, "shard-%d.log" % k)).read()[-2000:]))
                continue
            o = json.load(open(path))
            stats.evaluations += o["evaluations"]
            stats.nontrivial.update(o["nontrivial"])
            for c in o["samples"]:
                if len(stats.samples) < 3:
                    stats.samples.append(c)
            for kk, v in o["classes"].items():
                stats.classes[kk] = stats.classes.get(kk, 0) + v
            for pp in o["parts"]:
                a = per_part.setdefault(pp["part"], {"part": pp["part"], "kind": pp["kind"], "cases": 0, "wall_s": 0.0, "worker_processes": 0})
                a["cases"] += pp["cases"]
                a["wall_s"] = max(a["wall_s"], pp["wall_s"])
                a["worker_processes"] += 1
            for s, n in o["known_hits"].items():
                known_hits[s] = known_hits.get(s, 0) + n
            for v in o["violations"]:
                violations.append(tuple(v))
        stats.parts.extend(per_part.values())
        try:
            import shutil

            shutil.rmtree(sdir)
        except Exception:
            pass

    for s, what in known:
        if known_hits.get(s):
            print("KNOWN-FINDING: property=%s %s [%d cases; signature: %s]" % (prop, what, known_hits[s], s))
    for path, sig, msg in violations:
        print("VIOLATION property=%s replay=%s" % (prop, path))
        print("  signature: %s" % sig)
        print("  %s" % msg[:1500])
    wall = time.time() - t0
    samples = stats.samples or ["no non-trivial case was generated in this run"]
    coverage = {
        "evaluations": stats.evaluations,
        "distinct_nontrivial": len(stats.nontrivial),
        "rule": rule,
        "samples": samples,
        "exhaustive": False,
        "parts": stats.parts,
        "class_counts": stats.classes,
        "known_findings": {s: {"cases_hitting_it": known_hits.get(s, 0), "what": w} for s, w in known},
        "worker_processes_without_result": inconclusive,
    }
    write_evidence(prop, tier, coverage, assumptions, wall, len(violations))
    print("%s %s: %d cases, %d distinct non-trivial, %d violation(s), %.1f s" % (prop, tier, stats.evaluations, len(stats.nontrivial), len(violations), wall))
    if violations:
        return 1
    if inconclusive:
        print("INCONCLUSIVE property=%s %d python worker process(es) ended without a result" % (prop, inconclusive))
        return 2
    return 0


def replay_file(prop, path, replay_runner):
    body = json.load(open(path))
    try:
        replay_runner(body["part"], body["case"])
    except Violation as v:
        for s, what in load_known(prop):
            if v.sig.startswith(s):
                print("KNOWN-FINDING: property=%s %s" % (prop, what))
                return 0
        print("VIOLATION property=%s replay=%s" % (prop, path))
        print("  signature: %s" % v.sig)
        print("  %s" % v.msg[:1500])
        return 1
    print("replay %s: property %s held" % (path, prop))
    return 0
