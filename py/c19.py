"""C19: Python-facing arrays, dictionaries and data frames are laid out as documented.

Random asymmetric environment states are reached through StepEnv / StepEnvNumpy calls; every element
of the four observation arrays, the market-data dictionaries and the data-frame helpers is compared
with the quantity the documentation assigns to that position, each recomputed in Python from
get_orders() / get_trades() of the same object."""
import os
import re
import sys

import hypothesis.strategies as st
import numpy as np

import common
from common import MAXU32, Violation

import bourse
import bourse.data_processing as dp

LEVELS = 10


def expected_from_orders(orders, tick):
    """(bid_price, ask_price, bid_vol, ask_vol, per-level [bid_vol, n_bid, ask_vol, n_ask]) from order tuples."""
    act = [o for o in orders if o[1] == 1]
    bids = [o for o in act if o[0]]
    asks = [o for o in act if not o[0]]
    bid_price = max([o[6] for o in bids], default=0)
    ask_price = min([o[6] for o in asks], default=MAXU32)
    bid_vol = sum(o[4] for o in bids)
    ask_vol = sum(o[4] for o in asks)
    levels = []
    for i in range(LEVELS):
        bp = bid_price - i * tick
        ap = ask_price + i * tick
        b = [o for o in bids if o[6] == bp] if bids and bp >= 0 else []
        a = [o for o in asks if o[6] == ap] if asks and ap <= MAXU32 else []
        levels.append([sum(o[4] for o in b), len(b), sum(o[4] for o in a), len(a)])
    return bid_price, ask_price, bid_vol, ask_vol, levels


L1_DOC = ["trade volume (in the last step)", "bid touch price", "ask touch price", "bid total volume", "ask total volume", "bid touch volume", "number of buy orders at touch", "ask touch volume", "number of sell orders at touch"]


def expected_l1(trade_vol, exp):
    bp, ap, bv, av, lv = exp
    return [trade_vol, bp, ap, bv, av, lv[0][0], lv[0][1], lv[0][2], lv[0][3]]


def expected_l2(trade_vol, exp):
    bp, ap, bv, av, lv = exp
    out = [trade_vol, bp, ap, bv, av]
    for l in lv:
        out.extend(l)
    return out


def l2_name(k):
    if k < 5:
        return L1_DOC[k]
    i, j = divmod(k - 5, 4)
    return ["bid volume", "number of buy orders", "ask volume", "number of sell orders"][j] + " at level %d" % i


def check_array(what, got, want, names):
    got = [int(x) for x in got]
    if len(got) != len(want):
        raise Violation("C19 %s has the wrong length" % what.split(" ")[0], "%s has %d elements, documented %d; got %r" % (what, len(got), len(want), got))
    for k, (g, w) in enumerate(zip(got, want)):
        if g != w:
            # classify: is it a transposition of two documented entries?
            sig = "C19 %s element differs from the documented quantity" % what.split(" ")[0]
            raise Violation(sig, "%s[%d] = %d but the documented quantity (%s) is %d; whole array %r, expected %r" % (what, k, g, names(k), w, got, want))


def run_state(case):
    tick, seed, step_size, ops, numpy_api = case["tick"], case["seed"], case["step_size"], case["ops"], case["numpy_api"]
    env = (bourse.core.StepEnvNumpy if numpy_api else bourse.core.StepEnv)(seed, 0, tick, step_size)
    series = {k: [] for k in ["bid_price", "ask_price", "bid_vol", "ask_vol", "trade_vol"]}
    for i in range(LEVELS):
        for k in ["bid_vol_%d", "ask_vol_%d", "n_bid_%d", "n_ask_%d"]:
            series[k % i] = []
    last_trade_vol = 0
    feat = {"asym": 0, "arrays": 0, "steps": 0, "dicts": 0}

    # price band at the very top / bottom of the price range (C19 quantifies over all book states): index k of the
    # generated band 92..108 is moved so that the highest ask index is the last grid price <= 2^32-1 (shift 1) or
    # the lowest bid index is 0 (shift 2)
    shift = case.get("shift", 0)
    top = MAXU32 // tick

    def kmap(k):
        if shift == 1:
            return max(top - max(108 - k, 0), 0)
        if shift == 2:
            return max(k - 92, 0)
        return k

    def place(bid, vol, trader, price):
        if numpy_api:
            env.submit_limit_orders((np.array([bid], dtype=bool), np.array([vol], dtype=np.uint32), np.array([trader], dtype=np.uint32), np.array([price], dtype=np.uint32)))
        else:
            env.place_order(bid, vol, trader, price=price)

    def audit(step, arrays=True):
        orders = [tuple(o) for o in env.get_orders()]
        exp = expected_from_orders(orders, tick)
        bp, ap, bv, av, lv = exp
        asym = bv != av and lv[0][0] != lv[0][2] and lv[0][1] != lv[0][3] and bv > 0 and av > 0 and any(l[1] > 0 for l in lv[1:]) and any(l[3] > 0 for l in lv[1:])
        if asym:
            feat["asym"] += 1
            if last_trade_vol not in (bp, ap, bv, av, 0):
                feat["asym_with_trade_vol"] = feat.get("asym_with_trade_vol", 0) + 1
        if not arrays:
            return exp
        if numpy_api:
            got = [("StepEnvNumpy.level_1_data()", env.level_1_data(), expected_l1(last_trade_vol, exp), lambda k: L1_DOC[k]), ("StepEnvNumpy.level_2_data()", env.level_2_data(), expected_l2(last_trade_vol, exp), l2_name)]
        else:
            got = [("StepEnv.level_1_data_array()", env.level_1_data_array(), expected_l1(last_trade_vol, exp), lambda k: L1_DOC[k]), ("StepEnv.level_2_data_array()", env.level_2_data_array(), expected_l2(last_trade_vol, exp), l2_name)]
        for what, arr, want, names in got:
            check_array(what, arr, want, names)
        # an array handed out earlier describes the state it was read in: it must not change when the market moves on
        # or the method is called again (the caller keeps observations without copying them)
        for what, arr, want, names in retained:
            feat["retained"] = feat.get("retained", 0) + 1
            try:
                check_array(what, arr, want, names)
            except Violation as v:
                raise Violation("C19 an array returned earlier changed afterwards", "%s, read %d audits ago: %s" % (what, 1, v.msg))
        del retained[:]
        retained.extend(got)
        feat["arrays"] += 2
        return exp

    def check_dict():
        # market-data dictionary: exactly the documented keys, each bound to the matching series (also before the
        # first step, when every series is empty)
        md = env.get_market_data()
        feat["dicts"] += 1
        if not series["bid_price"]:
            feat["dicts_before_first_step"] = feat.get("dicts_before_first_step", 0) + 1
        if set(md.keys()) != set(series.keys()):
            raise Violation("C19 market-data dictionary keys differ from the documented ones", "after %d steps: extra %r, missing %r" % (len(series["bid_price"]), sorted(set(md) - set(series)), sorted(set(series) - set(md))))
        for k, want in series.items():
            got = [int(x) for x in md[k]]
            if got != want:
                raise Violation("C19 market-data dictionary entry is bound to the wrong series", "%s: got %r, recomputed per step %r" % (k, got, want))

    modified = set()
    retained = []
    audit(-1)
    if case.get("dict0"):
        check_dict()
    quiet_mask = case.get("quiet", 0)
    for step, op in enumerate(ops):
        # quiet calls: the observation arrays are not read after the call (state cached between reads is compared too)
        quiet = bool((quiet_mask >> (step % 64)) & 1) and step != len(ops) - 1
        if op[0] == "place":
            _, bid, vol, trader, k = op
            place(bid, vol, trader, kmap(k) * tick)
        elif op[0] == "bulk":
            # n orders at ONE price (queue lengths beyond 8 / 16 bits): one array call through the numpy API,
            # n single calls otherwise
            _, bid, n, vol, trader, k = op
            feat["bulk_orders"] = feat.get("bulk_orders", 0) + n
            feat["bulk_max"] = max(feat.get("bulk_max", 0), n)
            if numpy_api:
                env.submit_limit_orders((np.full(n, bid, dtype=bool), np.full(n, vol, dtype=np.uint32), np.full(n, trader, dtype=np.uint32), np.full(n, kmap(k) * tick, dtype=np.uint32)))
            else:
                for _i in range(n):
                    env.place_order(bid, vol, trader, price=kmap(k) * tick)
        elif op[0] == "cancel":
            n = len(env.get_orders())
            if n:
                oid = (op[1] * n) >> 16
                if numpy_api:
                    env.submit_cancellations(np.array([oid], dtype=np.uint64))
                else:
                    env.cancel_order(oid)
        elif op[0] == "modify":
            # StepEnv only (StepEnvNumpy has no modification call): re-price and / or re-size an existing order; a
            # crossing re-price trades against the OTHER side of the book
            n = len(env.get_orders())
            if n and not numpy_api:
                oid = (op[1] * n) >> 16
                price = None if op[2] is None else kmap(op[2]) * tick
                env.modify_order(oid, new_price=price, new_vol=op[3])
                modified.add(oid)
                feat["modifies"] = feat.get("modifies", 0) + 1
        elif op[0] == "dict":
            check_dict()
            continue
        elif op[0] == "toggle":
            # the flag by itself changes nothing: the arrays must still describe the orders of this object
            (env.enable_trading if op[1] else env.disable_trading)()
            feat["toggles"] = feat.get("toggles", 0) + 1
        elif op[0] == "step":
            n_tr = len(env.get_trades())
            env.step()
            feat["steps"] += 1
            last_trade_vol = sum(t[3] for t in env.get_trades()[n_tr:])
            exp = audit(step, arrays=not quiet)
            bp, ap, bv, av, lv = exp
            series["bid_price"].append(bp)
            series["ask_price"].append(ap)
            series["bid_vol"].append(bv)
            series["ask_vol"].append(av)
            series["trade_vol"].append(last_trade_vol)
            for i in range(LEVELS):
                series["bid_vol_%d" % i].append(lv[i][0])
                series["n_bid_%d" % i].append(lv[i][1])
                series["ask_vol_%d" % i].append(lv[i][2])
                series["n_ask_%d" % i].append(lv[i][3])
            continue
        if not quiet:
            audit(step)
    check_dict()
    # data frames built from this object's own records: the column named after a field must hold it.
    # Independent expectations: remaining volume = starting volume - logged fills of that order
    # (orders are never modified in these histories), filled <=> nothing remains, side strings.
    orders = [tuple(o) for o in env.get_orders()]
    trades = [tuple(t) for t in env.get_trades()]
    odf = dp.orders_to_dataframe(orders)
    tdf = dp.trades_to_dataframe(trades)
    fills = {}
    for vol, a, p_ in zip(tdf["vol"].tolist(), tdf["active_id"].tolist(), tdf["passive_id"].tolist()):
        fills[a] = fills.get(a, 0) + vol
        fills[p_] = fills.get(p_, 0) + vol
    for oid, vol, start_vol, status, side in zip(odf["order_id"].tolist(), odf["vol"].tolist(), odf["start_vol"].tolist(), odf["status"].tolist(), odf["side"].tolist()):
        if oid in modified:
            continue  # a modification may have re-sized the order: the log alone does not give its remaining volume
        if vol != start_vol - fills.get(oid, 0):
            raise Violation("C19 order data-frame volume columns do not hold remaining / starting volume", "order %r: vol column %r, start_vol column %r, logged fills %r" % (oid, vol, start_vol, fills.get(oid, 0)))
        # (an order submitted with volume 0 has nothing to fill: its status says nothing about the columns)
        if start_vol > 0 and (status == "filled") != (vol == 0):
            raise Violation("C19 order data-frame status / volume columns are inconsistent", "order %r: status %r, vol %r, start_vol %r" % (oid, status, vol, start_vol))
        if side not in ("bid", "ask"):
            raise Violation("C19 order data-frame side column", "order %r: %r" % (oid, side))
    if fills:
        feat["frames_with_fills"] = 1
    nontrivial = feat["asym"] >= 1
    return nontrivial, {"array_states": 1, "states_at_the_top_of_the_price_range": int(shift == 1), "states_at_the_bottom_of_the_price_range": int(shift == 2), "end_to_end_frames_with_fills": feat.get("frames_with_fills", 0), "arrays_checked": feat["arrays"], "steps": feat["steps"], "asymmetric_audits": feat["asym"], "asymmetric_audits_with_distinct_nonzero_traded_volume": feat.get("asym_with_trade_vol", 0), "trading_toggles": feat.get("toggles", 0), "modifications": feat.get("modifies", 0), "arrays_re_read_after_later_calls": feat.get("retained", 0), "dictionaries_checked": feat["dicts"], "dictionaries_read_before_the_first_step": feat.get("dicts_before_first_step", 0), "numpy_api_cases": int(numpy_api), "orders_placed_in_bulk_at_one_price": feat.get("bulk_orders", 0), "cases_with_a_level_of_65536_or_more_orders": int(feat.get("bulk_max", 0) >= 65536), "cases_with_a_level_of_256_or_more_orders": int(feat.get("bulk_max", 0) >= 256)}


def state_case_st():
    # volumes: the API accepts 0 (such an order rests and is counted, with no volume); C19 quantifies over all book states
    bvol = st.one_of(st.integers(1, 30), st.integers(1, 30), st.integers(1, 30), st.integers(0, 2))
    avol = st.one_of(st.integers(1, 40), st.integers(1, 40), st.integers(1, 40), st.integers(0, 2))
    bid = st.tuples(st.just("place"), st.just(True), bvol, st.integers(0, 9), st.integers(92, 99))
    ask = st.tuples(st.just("place"), st.just(False), avol, st.integers(0, 9), st.integers(101, 108))
    # a few orders far from the touch, with large volumes and trader ids (values that do not fit 16 / 24 / 31 bits;
    # at most 54 orders of at most 2^26 each, so a side's resting volume stays below 2^32)
    far_bid = st.tuples(st.just("place"), st.just(True), st.sampled_from([2**16 + 1, 2**24 + 7, 2**26 + 5]), st.sampled_from([9, 2**31 + 1]), st.integers(1, 91))
    far_ask = st.tuples(st.just("place"), st.just(False), st.sampled_from([2**16 + 3, 2**26 + 3]), st.sampled_from([9, 2**32 - 1]), st.sampled_from([109, 2**16 + 1, (2**32 - 2) // 10]))
    op = st.one_of(
        far_bid,
        far_ask,
        bid,
        ask,
        st.tuples(st.just("place"), st.just(True), st.integers(1, 30), st.integers(0, 9), st.integers(96, 104)),
        st.tuples(st.just("place"), st.just(False), st.integers(1, 40), st.integers(0, 9), st.integers(96, 104)),
        st.tuples(st.just("cancel"), st.integers(0, 65535)),
        st.tuples(st.just("modify"), st.integers(0, 65535), st.one_of(st.none(), st.integers(94, 106)), st.one_of(st.none(), st.integers(1, 40))),
        st.tuples(st.just("step")),
        st.tuples(st.just("step")),
        st.tuples(st.just("dict")),
        st.tuples(st.just("toggle"), st.booleans()),
    )
    prefix = st.tuples(st.lists(bid, min_size=3, max_size=7), st.lists(ask, min_size=3, max_size=7)).map(lambda t: t[0] + t[1] + [("step",)])
    short = st.tuples(prefix, st.lists(op, min_size=3, max_size=40)).map(lambda t: t[0] + t[1] + [("step",)])
    # long runs: hundreds of steps with sparse order flow (series of the dictionaries grow long; step indices pass 255)
    sparse = st.one_of(st.just(("step",)), st.just(("step",)), st.just(("step",)), st.just(("step",)), bid, ask, st.tuples(st.just("cancel"), st.integers(0, 65535)))
    long_run = st.tuples(prefix, st.lists(sparse, min_size=150, max_size=420)).map(lambda t: t[0] + t[1] + [("step",)])
    ops = st.integers(0, 9).flatmap(lambda k: long_run if k == 0 else short)
    return st.fixed_dictionaries({"dict0": st.booleans(), "shift": st.sampled_from([0, 0, 0, 0, 0, 0, 1, 1, 2]), "tick": st.one_of(st.integers(1, 10), st.sampled_from([1, 3, 5])), "seed": st.integers(0, 2**32), "step_size": st.sampled_from([100, 1000, 10**6]), "numpy_api": st.booleans(), "ops": ops, "quiet": st.one_of(st.just(0), st.integers(0, 2**64 - 1))})


def populated_case(n, bid, numpy_api, k_off, tick=2, shift=0):
    """One price level holding exactly n orders (second level of its side when k_off = 1), a smaller level on the
    other side, a step, one cancel, a step, a partial sweep by a market-crossing order, a step."""
    k = (99 - k_off) if bid else (101 + k_off)
    other = ("place", not bid, 3, 4, 101 if bid else 99)
    ops = [("place", True, 2, 1, 99), ("place", False, 5, 2, 101), ("place", True, 1, 1, 97), ("place", False, 1, 2, 104), ("bulk", bid, n, 1, 7, k), other, ("step",), ("dict",),
           ("cancel", 65535), ("step",), ("place", not bid, 40, 8, k), ("step",), ("step",)]
    return {"dict0": False, "shift": shift, "tick": tick, "seed": n, "step_size": 10**6, "numpy_api": numpy_api, "ops": [list(o) for o in ops], "quiet": 0}


POPULATION_COUNTS = [255, 256, 257, 65535, 65536, 65537]


def populated_case_st(big):
    # the magic counts (8- and 16-bit boundaries) and arbitrary counts in between / beyond
    n = st.one_of(st.sampled_from(POPULATION_COUNTS), st.integers(200, 70000 if big else 3000), st.sampled_from([70000, 131071, 131073] if big else POPULATION_COUNTS))
    return st.tuples(n, st.booleans(), st.booleans(), st.integers(0, 1), st.sampled_from([1, 2, 5, 10]), st.sampled_from([0, 0, 1, 2])).map(lambda t: populated_case(*t))


# ---------------------------------------------------------------------------------------------
# data-frame helpers (against the pandas stand-in, see DESIGN.md)

ORDER_FIELDS = ["side", "status", "arr_time", "end_time", "vol", "start_vol", "price", "trader_id", "order_id"]
TRADE_FIELDS = ["time", "side", "price", "vol", "active_id", "passive_id"]
STATUS_NAMES = {0: "new", 1: "active", 2: "filled", 3: "cancelled", 4: "rejected"}


def run_frames(case):
    orders = [tuple(o) for o in case["orders"]]
    trades = [tuple(t) for t in case["trades"]]
    df = dp.orders_to_dataframe(orders)
    if list(df.columns) != ORDER_FIELDS:
        bad = [(i, c) for i, c in enumerate(df.columns) if i >= len(ORDER_FIELDS) or c != ORDER_FIELDS[i]]
        raise Violation('C19 orders_to_dataframe column name differs from the documented one', "columns %r, documented %r (first difference %r)" % (list(df.columns), ORDER_FIELDS, bad[:1]))
    for j, name in enumerate(ORDER_FIELDS):
        want = [o[j] for o in orders]
        if name == "side":
            want = ["bid" if x else "ask" for x in want]
        if name == "status":
            want = [STATUS_NAMES[x] for x in want]
        if df[name].tolist() != want:
            raise Violation("C19 orders_to_dataframe column does not hold the field it is named after", "column %s: %r, field values %r" % (name, df[name].tolist()[:5], want[:5]))
    tf = dp.trades_to_dataframe(trades)
    if list(tf.columns) != TRADE_FIELDS:
        raise Violation("C19 trades_to_dataframe column name differs from the documented one", "columns %r, documented %r" % (list(tf.columns), TRADE_FIELDS))
    for j, name in enumerate(TRADE_FIELDS):
        want = [t[j] for t in trades]
        if name == "side":
            want = ["bid" if x else "ask" for x in want]
        if tf[name].tolist() != want:
            raise Violation("C19 trades_to_dataframe column does not hold the field it is named after", "column %s" % name)
    return len(orders) >= 2 and len(trades) >= 1, {"frame_cases": 1, "order_rows": len(orders), "trade_rows": len(trades)}


def frames_case_st():
    order = st.tuples(st.booleans(), st.integers(0, 4), st.integers(0, 10**6), st.integers(10**6, 2**64 - 1), st.integers(0, 500), st.integers(501, 1000), st.integers(1, MAXU32), st.integers(0, 50), st.integers(0, 10**5))
    trade = st.tuples(st.integers(0, 10**9), st.booleans(), st.integers(1, MAXU32), st.integers(1, 1000), st.integers(0, 10**5), st.integers(0, 10**5))
    return st.fixed_dictionaries({"orders": st.lists(order, min_size=0, max_size=30), "trades": st.lists(trade, min_size=0, max_size=30)})


# ---------------------------------------------------------------------------------------------
# documentation tables cross-check (reported, not decisive)


def doc_tables():
    out = {}
    for name, obj in [("StepEnv.level_1_data_array", bourse.core.StepEnv.level_1_data_array), ("StepEnv.level_2_data_array", bourse.core.StepEnv.level_2_data_array), ("StepEnvNumpy.level_1_data", bourse.core.StepEnvNumpy.level_1_data), ("StepEnvNumpy.level_2_data", bourse.core.StepEnvNumpy.level_2_data)]:
        doc = obj.__doc__ or ""
        rows = re.findall(r"\|\s*(\d+)\s*\|\s*([^|]+?)\s*\|", doc)
        out[name] = {int(k): v.strip().lower() for k, v in rows}
    return out


RULE = (
    "Three kinds of case. (1) array states: a generated sequence of placements (bids and asks at overlapping price bands; on StepEnv also modifications, incl. re-prices that cross and trade against the other side so that books are "
    "asymmetric in price, total volume, touch volume and touch count, with several occupied levels), cancels and steps on StepEnv or StepEnvNumpy; "
    "after every call element k of level_1_data_array / level_2_data_array (StepEnv) or level_1_data / level_2_data (StepEnvNumpy) must equal the "
    "quantity the documentation assigns to index k (traded volume of the last step, bid price, ask price, bid volume, ask volume, then per level bid "
    "volume, bid count, ask volume, ask count), recomputed from get_orders() / get_trades() of the same object, with documented lengths 9 and 45; an array handed out earlier is read again after the following calls and must still hold the values it had (no aliasing of internal buffers); at the "
    "end get_market_data() must have exactly the documented keys, each equal to the per-step series recomputed by the harness. Non-trivial: an audited "
    "state where every bid/ask pair of quantities differs and level >= 1 is occupied on both sides (states that additionally have a distinct non-zero traded volume are counted separately). "
    "(1b) populated levels: one price level holding n orders for every n in {255, 256, 257, 65535, 65536, 65537} (enumerated, both APIs) and generated n up to 70 000 "
    "(thorough: 131 073), placed by one array call (StepEnvNumpy) or n single calls (StepEnv): the same array / dictionary oracle, so order counts and volumes beyond 8 and 16 bits are read back. "
    "(2) data frames: generated order / trade tuple lists through orders_to_dataframe / trades_to_dataframe: the j-th column must carry the documented "
    "name of the j-th tuple field and hold that field's values. The docstring index tables are parsed and cross-checked (reported in evidence)."
)

ASSUMPTIONS = [
    "no pandas wheel exists in the sandbox: the data-frame helpers run against a minimal stand-in module (from_records, column get/set, map) that records what the helper builds",
    "expected values are recomputed in Python from get_orders() / get_trades() of the same object, independently of the getters under test",
    "compiled extension built from /repo's working tree by bin/pybuild, numpy 2.4.6",
]


def replay_runner(part, case):
    return run_frames(case) if part.startswith("data-frames") else run_state(case)



def main(tier):
    q = tier == "quick"
    parts = [("array-states", 4000 if q else 50000, state_case_st(), run_state), ("populated-levels-exact-counts", 0, [populated_case(n, (i + j) % 2 == 0, j == 1, (i // 2) % 2) for i, n in enumerate(POPULATION_COUNTS) for j in range(2)], run_state), ("populated-levels", 12 if q else 300, populated_case_st(not q), run_state), ("data-frames", 3000 if q else 40000, frames_case_st(), run_frames)]
    rc = common.run_parts("C19", tier, parts, RULE, ASSUMPTIONS, replay_runner)
    # append the docstring cross-check to the evidence (informational)
    try:
        import json

        p = os.path.join(common.ROOT, "evidence", "C19.json")
        ev = json.load(open(p))
        tables = doc_tables()
        ev["coverage"]["docstring_tables"] = {k: {str(i): v for i, v in t.items()} for k, t in tables.items()}
        ev["coverage"]["docstring_tables_agree_with_checked_layout"] = all(t.get(1, "").startswith("bid touch price") and t.get(3, "").startswith("bid total volume") and t.get(4, "").startswith("ask total volume") for t in tables.values())
        json.dump(ev, open(p, "w"), indent=1)
    except Exception as e:  # informational only
        print("note: docstring cross-check skipped: %s" % e)
    return rc


def _guarded(fn):
    # anything other than a verdict (oracle server died, import problem, ...) is inconclusive, never a violation
    try:
        return fn()
    except SystemExit:
        raise
    except BaseException as e:  # noqa
        import traceback

        traceback.print_exc()
        print("INCONCLUSIVE property=%s python check crashed: %r" % (os.path.basename(__file__)[:3].upper(), e))
        return 2


if __name__ == "__main__":
    if sys.argv[1] == "replay":
        sys.exit(common.replay_file("C19", sys.argv[2], replay_runner))
    sys.exit(_guarded(lambda: main(sys.argv[1])))
