"""C18: the Python classes are transparent views of the Rust core.

Generated call sequences are executed on the real compiled extension module (bourse.core.OrderBook,
bourse.core.StepEnv) and, call by call, on the Rust core through the oracle server; every return
value and, after every call, the whole snapshot must be equal."""
import os
import sys

import hypothesis.strategies as st

import common
from common import MAXU32, MAXU64, Violation, order_tuple_from_oracle, trade_tuple_from_oracle

import bourse  # the compiled extension assembled by bin/pybuild

SCRATCH = os.path.join(common.ROOT, ".scratch")
os.makedirs(SCRATCH, exist_ok=True)


SNAPSHOT_NAMES = ["c18-%d.json", "c18-%d", "c18-%d.snap.v2", ".c18-%d"]


def _remove_snapshot_file():
    for name in SNAPSHOT_NAMES:
        for extra in ("", ".json"):
            q = os.path.join(SCRATCH, name % os.getpid()) + extra
            if os.path.exists(q) and q != os.path.join(SCRATCH, "c18-%d.json" % os.getpid()):
                try:
                    os.remove(q)
                except OSError:
                    pass
    p = os.path.join(SCRATCH, "c18-%d.json" % os.getpid())
    if os.path.exists(p):
        os.remove(p)


import atexit  # noqa: E402

atexit.register(_remove_snapshot_file)


def aslist(x):
    return [int(v) for v in x]


# ---------------------------------------------------------------------------------------------
# snapshots


def py_book_snapshot(b):
    return {
        "bid_ask": list(b.bid_ask()),
        "ask_vol": b.ask_vol(),
        "best_ask_vol": b.best_ask_vol(),
        "best_ask_vol_and_orders": list(b.best_ask_vol_and_orders()),
        "bid_vol": b.bid_vol(),
        "best_bid_vol": b.best_bid_vol(),
        "best_bid_vol_and_orders": list(b.best_bid_vol_and_orders()),
        "orders": [tuple(o) for o in b.get_orders()],
        "trades": [tuple(t) for t in b.get_trades()],
    }


def oracle_book_snapshot(s):
    return {
        "bid_ask": s["bid_ask"],
        "ask_vol": s["ask_vol"],
        "best_ask_vol": s["best_ask_vol"],
        "best_ask_vol_and_orders": s["best_ask_vol_and_orders"],
        "bid_vol": s["bid_vol"],
        "best_bid_vol": s["best_bid_vol"],
        "best_bid_vol_and_orders": s["best_bid_vol_and_orders"],
        "orders": [order_tuple_from_oracle(o) for o in s["orders"]],
        "trades": [trade_tuple_from_oracle(t) for t in s["trades"]],
    }


def py_env_snapshot(e):
    p = e.get_prices()
    v = e.get_volumes()
    tv = e.get_touch_volumes()
    tc = e.get_touch_order_counts()
    return {
        "time": e.time,
        "bid_ask": list(e.bid_ask),
        "ask_vol": e.ask_vol,
        "best_ask_vol": e.best_ask_vol,
        "best_ask_vol_and_orders": list(e.best_ask_vol_and_orders),
        "bid_vol": e.bid_vol,
        "best_bid_vol": e.best_bid_vol,
        "best_bid_vol_and_orders": list(e.best_bid_vol_and_orders),
        "trade_vol": e.trade_vol,
        "orders": [tuple(o) for o in e.get_orders()],
        "trades": [tuple(t) for t in e.get_trades()],
        "prices": [aslist(p[0]), aslist(p[1])],
        "volumes": [aslist(v[0]), aslist(v[1])],
        "touch_volumes": [aslist(tv[0]), aslist(tv[1])],
        "touch_order_counts": [aslist(tc[0]), aslist(tc[1])],
        "trade_volumes": aslist(e.get_trade_volumes()),
    }


def oracle_env_snapshot(s):
    out = {k: s[k] for k in ["time", "bid_ask", "ask_vol", "best_ask_vol", "best_ask_vol_and_orders", "bid_vol", "best_bid_vol", "best_bid_vol_and_orders", "trade_vol", "prices", "volumes", "touch_volumes", "touch_order_counts", "trade_volumes"]}
    out["orders"] = [order_tuple_from_oracle(o) for o in s["orders"]]
    out["trades"] = [trade_tuple_from_oracle(t) for t in s["trades"]]
    return out


def first_diff(a, b):
    for k in a:
        if a[k] != b.get(k):
            x, y = a[k], b.get(k)
            if isinstance(x, list) and isinstance(y, list) and len(x) == len(y):
                for i, (p, q) in enumerate(zip(x, y)):
                    if p != q:
                        return "%s[%d]: python %r, rust core %r" % (k, i, p, q)
            return "%s: python %r, rust core %r" % (k, x, y)
    return None


def resolve(n, ix):
    return (ix * n) >> 16 if n > 0 else None


# ---------------------------------------------------------------------------------------------
# OrderBook


def run_book(case):
    tick, trading, t0, ops = case["tick"], case["trading"], case["t0"], case["ops"]
    orc = common.Oracle()
    try:
        return _run_book(orc, tick, trading, t0, ops, case.get("quiet", 0), case.get("big", 0))
    finally:
        orc.close()


def _run_book(orc, tick, trading, t0, ops, quiet_mask=0, big_mask=0):
    b = common.Guarded(bourse.core.OrderBook(t0, tick, trading), "C18", "OrderBook")
    orc.call("book_new", start=t0, tick=tick, trading=trading)
    now = t0
    feat = {"trades": 0, "cancel_or_modify": 0, "asym": 0, "errors": 0, "roundtrips": 0, "calls": 0}
    state = {"trading": trading}
    BIG = [2**30, 2**31, 2**31 + 5, 3 * 2**30, 2**30 + 5, MAXU32]

    def admissible(before, bid, price, vol, own=None):
        # largest volume <= vol that keeps the valid-history domain: resting volume of the side and the cumulative
        # traded volume stay below 2^32 at every moment. Whatever trades on arrival does not rest, so a side may be
        # nearly full while a large crossing order arrives.
        act = [o for o in before["orders"] if o[1] == 1 and o[8] != own]
        side_vol = sum(o[4] for o in act if o[0] == bid)
        tradable = 0
        if state["trading"] and (price is None or price % tick == 0):
            tradable = sum(o[4] for o in act if o[0] != bid and (price is None or (o[6] <= price if bid else o[6] >= price)))
        cap_trade = MAXU32 - sum(t[3] for t in before["trades"])
        if tradable > cap_trade:
            limit = cap_trade
        elif price is None:
            limit = MAXU32
        else:
            limit = (MAXU32 - side_vol) + tradable
        return max(0, min(vol, limit, MAXU32))

    def trade_fits(before, tgt, price, vol):
        # a modification re-enters the order: what it would trade must fit the traded-volume counter
        act = [o for o in before["orders"] if o[1] == 1 and o[8] != tgt[8]]
        if not state["trading"] or tgt[1] != 1:
            return True
        p_ = price if price is not None else tgt[6]
        tradable = sum(o[4] for o in act if o[0] != tgt[0] and (o[6] <= p_ if tgt[0] else o[6] >= p_))
        v_ = vol if vol is not None else tgt[4]
        return min(v_, tradable) <= MAXU32 - sum(t[3] for t in before["trades"])

    def compare(step, op):
        ps = py_book_snapshot(b)
        os_ = oracle_book_snapshot(orc.call("book_snapshot"))
        d = first_diff(ps, os_)
        if d:
            raise Violation("C18 OrderBook differs from the Rust core", "step %d %r: %s" % (step, op, d))
        # status codes as documented, through order_status as well
        for o in ps["orders"]:
            if b.order_status(o[8]) != o[1]:
                raise Violation("C18 order_status disagrees with get_orders", "step %d: order %d" % (step, o[8]))
        feat["trades"] = len(ps["trades"])
        if ps["bid_vol"] != ps["ask_vol"] and ps["best_bid_vol_and_orders"] != ps["best_ask_vol_and_orders"] and ps["bid_vol"] > 0 and ps["ask_vol"] > 0:
            feat["asym"] += 1
        return ps

    compare(-1, "new")
    for step, op in enumerate(ops):
        kind = op[0]
        feat["calls"] += 1
        # quiet calls: the Python object is NOT observed before or after the call (only the core's own snapshot is
        # read, for ids), so that state cached between observations - not only state observed after every call -
        # is compared; the last call is always observed
        quiet = bool((quiet_mask >> (step % 64)) & 1) and step != len(ops) - 1
        feat["quiet"] = feat.get("quiet", 0) + int(quiet)
        before = oracle_book_snapshot(orc.call("book_snapshot")) if quiet else py_book_snapshot(b)
        if kind == "set_time":
            now = min(now + op[1], MAXU64)
            b.set_time(now)
            orc.call("book_set_time", t=now)
        elif kind == "enable":
            b.enable_trading()
            orc.call("book_enable")
            state["trading"] = True
        elif kind == "disable":
            b.disable_trading()
            orc.call("book_disable")
            state["trading"] = False
        elif kind == "place":
            _, bid, vol, trader, price = op
            if (big_mask >> (step % 64)) & 1:
                vol = BIG[(vol + step) % len(BIG)]
                feat["big"] = feat.get("big", 0) + 1
            vol = admissible(before, bid, price, vol)
            # documented usage: advance the clock between placements
            now += 1
            b.set_time(now)
            orc.call("book_set_time", t=now)
            r = orc.call("book_place", bid=bid, vol=vol, trader=trader, price=price)
            try:
                with b.expecting(ValueError):
                    pid = b.place_order(bid, vol, trader, price=price) if price is not None else b.place_order(bid, vol, trader)
                if not r["ok"]:
                    raise Violation("C18 Python accepted an order the Rust core rejects", "step %d %r -> %r, core: %r" % (step, op, pid, r))
                if pid != r["id"]:
                    raise Violation("C18 returned order id differs from the Rust core", "step %d %r: python %r, core %r" % (step, op, pid, r["id"]))
            except ValueError as e:
                feat["errors"] += 1
                if r["ok"]:
                    raise Violation("C18 Python raised ValueError for an order the Rust core accepts", "step %d %r: %s" % (step, op, e))
                if price is None or price % tick == 0:
                    raise Violation("C18 ValueError for an on-grid price", "step %d %r: %s" % (step, op, e))
        elif kind == "place_bad":
            # out-of-range integer in one argument: OverflowError, object unchanged
            _, field, value = op
            args = {"bid": True, "vol": 5, "trader": 1, "price": tick * 10}
            args[field] = value
            try:
                with b.expecting(OverflowError):
                    b.place_order(args["bid"], args["vol"], args["trader"], price=args["price"])
                raise Violation("C18 out-of-range integer accepted", "step %d %r" % (step, op))
            except OverflowError:
                feat["errors"] += 1
            after = before if quiet else py_book_snapshot(b)
            if after != before:
                raise Violation("C18 failed call changed the object", "step %d %r: %s" % (step, op, first_diff(after, before)))
        elif kind == "time_bad":
            try:
                with b.expecting(OverflowError):
                    b.set_time(op[1])
                raise Violation("C18 out-of-range integer accepted", "step %d %r" % (step, op))
            except OverflowError:
                feat["errors"] += 1
        elif kind == "cancel":
            n = len(before["orders"])
            if n == 0:
                continue
            oid = resolve(n, op[1])
            b.cancel_order(oid)
            orc.call("book_cancel", id=oid)
            feat["cancel_or_modify"] += 1
        elif kind == "modify":
            n = len(before["orders"])
            if n == 0:
                continue
            _, ix, price, vol = op
            oid = resolve(n, ix)
            tgt = before["orders"][oid]
            if vol is not None and tgt[1] == 1:
                vol = admissible(before, tgt[0], price if price is not None else tgt[6], vol, own=oid)
            if not trade_fits(before, tgt, price, vol):
                continue
            now += 1
            b.set_time(now)
            orc.call("book_set_time", t=now)
            if price is None and vol is None:
                b.modify_order(oid)
            elif price is None:
                b.modify_order(oid, new_vol=vol)
            elif vol is None:
                b.modify_order(oid, new_price=price)
            else:
                b.modify_order(oid, new_price=price, new_vol=vol)
            orc.call("book_modify", id=oid, price=price, vol=vol)
            feat["cancel_or_modify"] += 1
        elif kind == "modify_cur":
            # modification that restates the order's current price and / or remaining volume
            active = [o for o in before["orders"] if o[1] == 1]
            if not active:
                continue
            _, ix, mode = op
            o = active[(ix * len(active)) >> 16]
            oid = o[8]
            price = o[6] if mode in (0, 2) else None
            vol = o[4] if mode in (1, 2) else None
            if not trade_fits(before, o, price, vol):
                continue
            now += 1
            b.set_time(now)
            orc.call("book_set_time", t=now)
            if price is None:
                b.modify_order(oid, new_vol=vol)
            elif vol is None:
                b.modify_order(oid, new_price=price)
            else:
                b.modify_order(oid, new_price=price, new_vol=vol)
            orc.call("book_modify", id=oid, price=price, vol=vol)
            feat["cancel_or_modify"] += 1
            feat["restating_modifies"] = feat.get("restating_modifies", 0) + 1
        elif kind == "roundtrip":
            # snapshot written from Python loads in Rust; one written by Rust loads in Python
            _, pretty, direction = op
            # one snapshot path per process, deliberately NOT removed between uses: saving over an existing (often
            # longer) file is ordinary usage and must replace it; before the first use it holds a long unrelated text
            # the file name is the caller's: with and without an extension, with several dots, hidden
            path = os.path.join(SCRATCH, SNAPSHOT_NAMES[step % 4] % os.getpid())
            if not os.path.exists(path):
                with open(path, "w") as fh:
                    fh.write("{" + " " * 60000 + "}")
            if direction == 0:
                b.save_json_snapshot(path, pretty)
                r = orc.call("book_load", path=path)
                if not r["ok"]:
                    raise Violation("C18 snapshot written from Python does not load in Rust", "step %d: %r" % (step, r))
            else:
                r = orc.call("book_save", path=path, pretty=pretty)
                b = common.Guarded(bourse.core.order_book_from_json(path), "C18", "OrderBook")
            feat["roundtrips"] += 1
        if not quiet:
            compare(step, op)
    nontrivial = feat["trades"] >= 1 and feat["cancel_or_modify"] >= 1 and feat["asym"] >= 1
    return nontrivial, {"book_sequences": 1, "book_calls": feat["calls"], "book_trades": feat["trades"], "book_error_paths": feat["errors"], "book_snapshot_roundtrips": feat["roundtrips"], "book_asymmetric_states": feat["asym"], "book_modifies_restating_current_values": feat.get("restating_modifies", 0), "book_calls_not_observed": feat.get("quiet", 0), "book_orders_with_volume_2^30_or_more": feat.get("big", 0)}


def price_st(tick):
    # any in-range price argument: the dense band, the whole grid, and the two ends of the range (0 and 2^32-1 are
    # in-range integers; whatever the core makes of them, the Python class must make the same)
    ends = st.sampled_from([0, tick, ((MAXU32 - 1) // tick) * tick, MAXU32 - (MAXU32 % tick)])
    return st.one_of(st.integers(8, 14).map(lambda k: k * tick), st.integers(1, (MAXU32 - 1) // tick).map(lambda k: k * tick), ends)


def vol_st(hi):
    # any in-range volume argument, including 0 (accepted by the core) and large values (<= 2^26: with at most 40 calls a
    # side stays below 2^32)
    return st.one_of(st.integers(1, hi), st.integers(1, hi), st.integers(1, hi), st.integers(1, hi), st.sampled_from([0, 0, 2**20, 2**26]))


def book_case_st():
    def ops_for(tick):
        good_price = st.integers(8, 14).map(lambda k: k * tick)
        tight_price = st.integers(10, 12).map(lambda k: k * tick)
        off_price = st.integers(8, 14).map(lambda k: k * tick + 1) if tick > 1 else good_price
        op = st.one_of(
            st.tuples(st.just("place"), st.booleans(), vol_st(12), st.one_of(st.integers(0, 9), st.integers(0, MAXU32)), st.one_of(st.none(), good_price, good_price, good_price, off_price, price_st(tick))),
            st.tuples(st.just("place"), st.booleans(), st.integers(1, 12), st.integers(0, 9), good_price),
            st.tuples(st.just("place"), st.booleans(), st.integers(1, 6), st.integers(0, 9), st.one_of(st.none(), tight_price)),
            st.tuples(st.just("cancel"), st.integers(0, 65535)),
            st.tuples(st.just("modify"), st.integers(0, 65535), st.one_of(st.none(), good_price, tight_price, price_st(tick)), st.one_of(st.none(), st.integers(1, 14), vol_st(14))),
            st.tuples(st.just("modify_cur"), st.integers(0, 65535), st.integers(0, 2)),
            st.tuples(st.just("set_time"), st.one_of(st.integers(0, 50), st.integers(0, 50), st.integers(0, 2**40))),
            st.tuples(st.sampled_from(["enable", "disable"])),
            st.tuples(st.just("place_bad"), st.sampled_from(["vol", "trader", "price"]), st.sampled_from([-1, 2**32, 2**64, -(2**63)])),
            st.tuples(st.just("time_bad"), st.sampled_from([-1, 2**64])),
            st.tuples(st.just("roundtrip"), st.booleans(), st.integers(0, 1)),
        )
        seed_orders = st.lists(st.tuples(st.just("place"), st.booleans(), st.integers(1, 12), st.integers(0, 9), st.one_of(good_price, tight_price)), min_size=3, max_size=8)
        return st.tuples(seed_orders, st.lists(op, min_size=4, max_size=32)).map(lambda t: t[0] + t[1])

    return st.integers(1, 10).flatmap(lambda tick: st.fixed_dictionaries({"tick": st.just(tick), "trading": st.sampled_from([True, True, True, False]), "t0": st.integers(0, 1000), "ops": ops_for(tick), "quiet": st.one_of(st.just(0), st.integers(0, 2**64 - 1), st.just(2**64 - 1)), "big": st.one_of(st.just(0), st.just(0), st.just(0), st.integers(0, 2**64 - 1))}))


# ---------------------------------------------------------------------------------------------
# StepEnv


def run_env(case):
    orc = common.Oracle()
    try:
        return _run_env(orc, case)
    finally:
        orc.close()


def _run_env(orc, case):
    seed, tick, t0, step_size, trading, ops = case["seed"], case["tick"], case["t0"], case["step_size"], case["trading"], case["ops"]
    quiet_mask = case.get("quiet", 0)
    e = common.Guarded(bourse.core.StepEnv(seed, t0, tick, step_size, trading), "C18", "StepEnv")
    e2 = common.Guarded(bourse.core.StepEnv(seed, t0, tick, step_size, trading), "C18", "StepEnv")  # determinism: same seed, same calls
    orc.call("env_new", seed=seed, start=t0, tick=tick, step=step_size, trading=trading)
    feat = {"trades": 0, "cancel_or_modify": 0, "asym": 0, "errors": 0, "steps": 0, "calls": 0}

    def compare(step, op):
        ps = py_env_snapshot(e)
        os_ = oracle_env_snapshot(orc.call("env_snapshot"))
        d = first_diff(ps, os_)
        if d:
            raise Violation("C18 StepEnv differs from the Rust core", "step %d %r: %s" % (step, op, d))
        p2 = py_env_snapshot(e2)
        d = first_diff(ps, p2)
        if d:
            raise Violation("C18 StepEnv is not deterministic in its seed", "step %d %r: %s" % (step, op, d))
        for o in ps["orders"]:
            if e.order_status(o[8]) != o[1]:
                raise Violation("C18 order_status disagrees with get_orders", "step %d: order %d" % (step, o[8]))
        feat["trades"] = len(ps["trades"])
        if ps["bid_vol"] != ps["ask_vol"] and ps["best_bid_vol_and_orders"] != ps["best_ask_vol_and_orders"] and ps["bid_vol"] > 0 and ps["ask_vol"] > 0:
            feat["asym"] += 1
        return ps

    compare(-1, "new")
    for step, op in enumerate(ops):
        kind = op[0]
        feat["calls"] += 1
        quiet = bool((quiet_mask >> (step % 64)) & 1) and step != len(ops) - 1  # see _run_book
        feat["quiet"] = feat.get("quiet", 0) + int(quiet)
        before = oracle_env_snapshot(orc.call("env_snapshot")) if quiet else py_env_snapshot(e)
        if kind == "place":
            _, bid, vol, trader, price = op
            r = orc.call("env_place", bid=bid, vol=vol, trader=trader, price=price)
            try:
                with e.expecting(ValueError), e2.expecting(ValueError):
                    if price is not None:
                        pid = e.place_order(bid, vol, trader, price=price)
                        e2.place_order(bid, vol, trader, price=price)
                    else:
                        pid = e.place_order(bid, vol, trader)
                        e2.place_order(bid, vol, trader)
                if not r["ok"]:
                    raise Violation("C18 Python accepted an order the Rust core rejects", "step %d %r -> %r" % (step, op, pid))
                if pid != r["id"]:
                    raise Violation("C18 returned order id differs from the Rust core", "step %d %r: python %r, core %r" % (step, op, pid, r["id"]))
            except ValueError as ex:
                feat["errors"] += 1
                if r["ok"]:
                    raise Violation("C18 Python raised ValueError for an order the Rust core accepts", "step %d %r: %s" % (step, op, ex))
                try:
                    with e2.expecting(ValueError):
                        e2.place_order(bid, vol, trader, price=price)
                except ValueError:
                    pass
                if not quiet and py_env_snapshot(e) != before:
                    raise Violation("C18 failed call changed the object", "step %d %r" % (step, op))
        elif kind == "place_bad":
            _, field, value = op
            args = {"bid": True, "vol": 5, "trader": 1, "price": tick * 10}
            args[field] = value
            try:
                with e.expecting(OverflowError):
                    e.place_order(args["bid"], args["vol"], args["trader"], price=args["price"])
                raise Violation("C18 out-of-range integer accepted", "step %d %r" % (step, op))
            except OverflowError:
                feat["errors"] += 1
            if not quiet and py_env_snapshot(e) != before:
                raise Violation("C18 failed call changed the object", "step %d %r" % (step, op))
        elif kind == "cancel":
            n = len(before["orders"])
            if n == 0:
                continue
            oid = resolve(n, op[1])
            e.cancel_order(oid)
            e2.cancel_order(oid)
            orc.call("env_cancel", id=oid)
            feat["cancel_or_modify"] += 1
        elif kind == "modify":
            n = len(before["orders"])
            if n == 0:
                continue
            _, ix, price, vol = op
            oid = resolve(n, ix)
            for x in (e, e2):
                if price is None and vol is None:
                    x.modify_order(oid)
                elif price is None:
                    x.modify_order(oid, new_vol=vol)
                elif vol is None:
                    x.modify_order(oid, new_price=price)
                else:
                    x.modify_order(oid, new_price=price, new_vol=vol)
            orc.call("env_modify", id=oid, price=price, vol=vol)
            feat["cancel_or_modify"] += 1
        elif kind in ("cancel_next", "modify_next"):
            # an instruction for the order that the NEXT placement creates: the core only queues the id and looks
            # it up when the step processes it, so instruction and placement may be submitted in either order
            _, bid, vol, trader, price, mprice, mvol = op
            oid = len(before["orders"])
            for x in (e, e2):
                if kind == "cancel_next":
                    x.cancel_order(oid)
                elif mprice is None:
                    x.modify_order(oid, new_vol=mvol)
                else:
                    x.modify_order(oid, new_price=mprice, new_vol=mvol)
            if kind == "cancel_next":
                orc.call("env_cancel", id=oid)
            else:
                orc.call("env_modify", id=oid, price=mprice, vol=mvol)
            r = orc.call("env_place", bid=bid, vol=vol, trader=trader, price=price)
            pid = e.place_order(bid, vol, trader, price=price)
            e2.place_order(bid, vol, trader, price=price)
            if not r["ok"] or pid != r["id"] or pid != oid:
                raise Violation("C18 returned order id differs from the Rust core", "step %d %r: python %r, core %r, expected %r" % (step, op, pid, r, oid))
            feat["cancel_or_modify"] += 1
            feat["future_id"] = feat.get("future_id", 0) + 1
        elif kind == "modify_cur":
            active = [o for o in before["orders"] if o[1] == 1]
            if not active:
                continue
            _, ix, mode = op
            o = active[(ix * len(active)) >> 16]
            oid = o[8]
            price = o[6] if mode in (0, 2) else None
            vol = o[4] if mode in (1, 2) else None
            for x in (e, e2):
                if price is None:
                    x.modify_order(oid, new_vol=vol)
                elif vol is None:
                    x.modify_order(oid, new_price=price)
                else:
                    x.modify_order(oid, new_price=price, new_vol=vol)
            orc.call("env_modify", id=oid, price=price, vol=vol)
            feat["cancel_or_modify"] += 1
        elif kind == "enable":
            e.enable_trading()
            e2.enable_trading()
            orc.call("env_enable")
        elif kind == "disable":
            e.disable_trading()
            e2.disable_trading()
            orc.call("env_disable")
        elif kind == "step":
            e.step()
            e2.step()
            orc.call("env_step")
            feat["steps"] += 1
        if not quiet:
            compare(step, op)
    nontrivial = feat["trades"] >= 1 and feat["cancel_or_modify"] >= 1 and feat["asym"] >= 1
    return nontrivial, {"env_sequences": 1, "env_calls": feat["calls"], "env_steps": feat["steps"], "env_trades": feat["trades"], "env_error_paths": feat["errors"], "env_asymmetric_states": feat["asym"], "env_instructions_for_the_next_created_order": feat.get("future_id", 0), "env_calls_not_observed": feat.get("quiet", 0)}


def env_case_st():
    def ops_for(tick):
        good_price = st.integers(8, 14).map(lambda k: k * tick)
        tight_price = st.integers(10, 12).map(lambda k: k * tick)
        off_price = st.integers(8, 14).map(lambda k: k * tick + 1) if tick > 1 else good_price
        op = st.one_of(
            st.tuples(st.just("place"), st.booleans(), vol_st(12), st.one_of(st.integers(0, 9), st.integers(0, MAXU32)), st.one_of(st.none(), good_price, good_price, good_price, off_price, price_st(tick))),
            st.tuples(st.just("place"), st.booleans(), st.integers(1, 12), st.integers(0, 9), good_price),
            st.tuples(st.just("place"), st.booleans(), st.integers(1, 6), st.integers(0, 9), st.one_of(st.none(), tight_price)),
            st.tuples(st.just("cancel"), st.integers(0, 65535)),
            st.tuples(st.just("modify"), st.integers(0, 65535), st.one_of(st.none(), good_price, tight_price, price_st(tick)), st.one_of(st.none(), st.integers(1, 14), vol_st(14))),
            st.tuples(st.just("modify_cur"), st.integers(0, 65535), st.integers(0, 2)),
            st.tuples(st.sampled_from(["cancel_next", "modify_next"]), st.booleans(), st.integers(1, 12), st.integers(0, 9), good_price, st.one_of(st.none(), tight_price), st.integers(1, 14)),
            st.tuples(st.just("step")),
            st.tuples(st.just("step")),
            st.tuples(st.sampled_from(["enable", "disable"])),
            st.tuples(st.just("place_bad"), st.sampled_from(["vol", "trader", "price"]), st.sampled_from([-1, 2**32, 2**64])),
        )
        seed_orders = st.lists(st.tuples(st.just("place"), st.booleans(), st.integers(1, 12), st.integers(0, 9), st.one_of(good_price, tight_price)), min_size=3, max_size=8).map(lambda l: l + [("step",)])
        short = st.tuples(seed_orders, st.lists(op, min_size=4, max_size=32)).map(lambda t: t[0] + t[1])
        # long runs: a few hundred calls, most of them steps (history getters grow long, step indices pass 255)
        sparse = st.one_of(st.just(("step",)), st.just(("step",)), st.just(("step",)), op)
        long_run = st.tuples(seed_orders, st.lists(sparse, min_size=120, max_size=300)).map(lambda t: t[0] + t[1])
        return st.integers(0, 19).flatmap(lambda k: long_run if k == 0 else short)

    return st.integers(1, 10).flatmap(
        lambda tick: st.fixed_dictionaries({"seed": st.one_of(st.integers(0, 2**64 - 1), st.integers(0, 5)), "tick": st.just(tick), "t0": st.one_of(st.integers(0, 1000), st.integers(0, 1000), st.integers(0, 2**62)), "step_size": st.sampled_from([50, 100, 1000, 10**6, 2**40]), "trading": st.sampled_from([True, True, True, False]), "ops": ops_for(tick), "quiet": st.one_of(st.just(0), st.integers(0, 2**64 - 1), st.just(2**64 - 1))})
    )


def tolist_case(case):
    """JSON round trip turns tuples into lists; the interpreters index positionally so both work."""
    return case


RULE = (
    "A case is a generated call sequence (<= 40 calls) on bourse.core.OrderBook or bourse.core.StepEnv executed through the real compiled "
    "extension module under CPython and, call by call, on bourse_book / bourse_de through the oracle server: placements with and without price "
    "(on-grid, off-grid -> ValueError), cancels and modifications of generated ids, clock changes, trading toggles, steps, out-of-range integers "
    "(-1, 2^32, 2^64 -> OverflowError, object unchanged), JSON snapshots written by Python and loaded by Rust and vice versa. After every call the "
    "full snapshot (every getter, order and trade tuples with side True = bid and status codes 0..4 checked against the statuses the core reports "
    "by name, history getters) must equal the core's; two StepEnvs with one seed must agree. Non-trivial: >= 1 trade, >= 1 cancel or modify and a "
    "state where bid quantities differ from ask quantities."
)

ASSUMPTIONS = [
    "the compiled extension is built from /repo's working tree by bin/pybuild (cargo build -p bourse, debug profile) and imported under python3-vt with numpy 2.4.6",
    "ids passed to cancel / modify / order_status exist when the call is made, or (StepEnv cancel / modify) are created before the next step - the core looks a queued id up only when the step processes it; an id that never exists makes the Rust core panic, which is outside the valid domain",
    "trusted base: the oracle server (thin JSON wrapper over the public Rust API), Hypothesis 6.168",
]


def replay_runner(part, case):
    return run_book(case) if part.startswith("orderbook") else run_env(case)


def main(tier):
    q = tier == "quick"
    parts = [("orderbook-call-sequences", 5000 if q else 60000, book_case_st(), run_book), ("stepenv-call-sequences", 3500 if q else 40000, env_case_st(), run_env)]
    return common.run_parts("C18", tier, parts, RULE, ASSUMPTIONS, replay_runner)


def _guarded(fn):
    # anything other than a verdict (oracle server died, import problem, ...) is inconclusive, never a violation
    try:
        return fn()
    except SystemExit:
        raise
    except BaseException as e:  # noqa
        import traceback

        traceback.print_exc()
        print("INCONCLUSIVE property=%s python check crashed: %r" % (os.path.basename(__file__)[:3].upper(), e))
        return 2


if __name__ == "__main__":
    if sys.argv[1] == "replay":
        sys.exit(common.replay_file("C18", sys.argv[2], replay_runner))
    sys.exit(_guarded(lambda: main(sys.argv[1])))
