"""Stand-in for tqdm (no wheel available offline): only what bourse.step_sim.runner imports."""


def tqdm(it, *args, **kwargs):
    return it


def trange(n, *args, **kwargs):
    return range(n)
