"""Minimal stand-in for pandas (no wheel available offline).

Records what bourse.data_processing builds: DataFrame.from_records(records, columns=...), column
get / set, Series.map(dict). Nothing else is provided."""


class Series:
    def __init__(self, values):
        self.values = list(values)

    def map(self, mapping):
        return Series([mapping.get(v, None) for v in self.values])

    def tolist(self):
        return list(self.values)

    def __iter__(self):
        return iter(self.values)

    def __len__(self):
        return len(self.values)


class DataFrame:
    def __init__(self, data=None, columns=None):
        self.columns = list(columns) if columns is not None else []
        self._cols = {c: [] for c in self.columns}
        if data:
            for rec in data:
                for c, v in zip(self.columns, rec):
                    self._cols[c].append(v)

    @classmethod
    def from_records(cls, records, columns=None):
        records = list(records)
        if columns is None:
            raise TypeError("stand-in: columns required")
        for rec in records:
            if len(rec) != len(columns):
                raise ValueError("stand-in: record length %d does not match %d columns" % (len(rec), len(columns)))
        return cls(records, columns)

    def __getitem__(self, key):
        return Series(self._cols[key])

    def __setitem__(self, key, value):
        vals = value.tolist() if isinstance(value, Series) else list(value)
        if key not in self._cols:
            self.columns.append(key)
        self._cols[key] = vals

    def __len__(self):
        return len(next(iter(self._cols.values()))) if self._cols else 0
